#!/bin/bash
# usage: mkscratch.sh <dir>  -- build an instrumented scratch copy of /repo with harness; prints nothing on success
set -e
D=$1
export GOFLAGS=-mod=mod GOPROXY=off GOSUMDB=off GOTOOLCHAIN=local PATH=/opt/veriftools/go1.26.8/bin:$PATH
rm -rf "$D"; mkdir -p "$D"
rsync -a --exclude .git --exclude tools /repo/ "$D/"
sed -i -e 's/^go 1\..*/go 1.25/' -e '/^toolchain /d' "$D/go.mod"
mkdir -p "$D/verifrt" "$D/verifh"
cp /verif/sim/rt/*.go "$D/verifrt/"
/verif/bin/instrument -dir "$D" -report "$D/sites.json"
cp /verif/sim/harness/*.go "$D/verifh/"
cd "$D" && go vet ./verifh ./verifrt && go test -c -o "$D/harness.test" ./verifh
