#!/usr/bin/env python3
"""Writes seeded/SUMMARY.md from seeded/*/meta.json."""
import json, os, glob
V = os.path.dirname(os.path.dirname(os.path.abspath(__file__)))
rows = []
for m in sorted(glob.glob(os.path.join(V, "seeded", "*", "meta.json"))):
    d = json.load(open(m))
    caught = [c for c in d["checks"] if c["exit"] == 1]
    own = [c for c in d["checks"] if c["check"] == d["breaks_property"]]
    status = "CAUGHT by " + ", ".join("%s (%s, after %s)" % (c["check"], c["class"], c["runs_before_detection"]) for c in caught) if caught else "MISSED"
    others = [c["check"] for c in d["checks"] if c["exit"] == 0]
    v = d["verified"]
    ok = v["builds"] == "ok" and v["existing_suite_with_change"] == "pass" and v["demo_with_change"] == "fail" and v["demo_without_change"] == "pass"
    rows.append((d["name"], d["breaks_property"], "yes" if ok else "NO: %s" % v, status, ", ".join(sorted(set(others))), d.get("note", "")))
with open(os.path.join(V, "seeded", "SUMMARY.md"), "w") as f:
    f.write("# Seeded changes (written by independent sub-agents from the property text only)\n\n")
    f.write("Each directory holds patch.diff, the sub-agent's demonstration test, its NOTES.md and meta.json (what was verified and what each check reported).\n")
    f.write("Verification = builds, existing suite passes with the change, demonstration fails with it and passes without it.\n\n")
    f.write("| change | breaks | verified | outcome (quick tier, 20 s) | checks that stay green | note |\n|---|---|---|---|---|---|\n")
    for r in rows:
        f.write("| %s | %s | %s | %s | %s | %s |\n" % r)
    n = len(rows); c = sum(1 for r in rows if r[3].startswith("CAUGHT"))
    f.write("\n%d of %d caught by the check of the property they break.\n" % (c, n))
    f.write("\nNotes: two further sub-agents (a first-wave C04 agent, whose result is stored as C04-batch-id-block, and a second-wave C04 agent) arrived at the same Client.Batch id-block change as C18-batch-id-block (`git stash`, shared between the sub-agents' worktrees, leaked edits between them); the duplicate is not stored twice; likewise a third-wave C09 agent repeated C09-callid-reset-on-start and a fourth-wave agent repeated the Close fast path of C05b/C05c (both re-checked: caught). Behaviour-preserving refactorings (no alarm expected, none raised) are under seeded/refactorings/.\n")
