#!/bin/bash
# usage: trymut.sh <patchfile|-e sedexpr file> props...   -- apply a change to a scratch copy of /repo HEAD and run checks against it
set -e
W=/tmp/wt-mut-$$
git -C /repo worktree add -q --detach $W HEAD
trap "git -C /repo worktree remove --force $W" EXIT
if [ "$1" = "-e" ]; then sed -i -E "$2" $W/$3; shift 3; else git -C $W apply "$1"; shift; fi
(cd $W && go build ./... ) || { echo "mutant does not build"; exit 3; }
git -C $W diff --stat | tail -1
for p in "$@"; do VERIF_REPO=$W VERIF_BUDGET_S=${BUDGET:-8} /verif/bin/vcheck $p | grep -E "^(violation class|message|VIOLATION|C[0-9]+ quick)" | cut -c1-400; done
