#!/bin/bash
# usage: matrix.sh [budget_s]  -- run every check against every seeded change; print a matrix (X = alarm, . = quiet, ? = exit 2)
B=${1:-6}
V=$(cd "$(dirname "$0")/.." && pwd)
CHECKS="C01 C03 C04 C05 C06 C07 C08 C09 C10 C11 C12 C18 C19 C20"
printf "%-40s" "seed \\ check"; for c in $CHECKS; do printf "%4s" $c; done; echo
for d in $V/seeded/*/; do
  n=$(basename $d); [ -f $d/patch.diff ] || continue
  W=/tmp/wt-matrix-$$; git -C /repo worktree add -q --detach $W HEAD; (cd $W && git apply $d/patch.diff)
  printf "%-40s" $n
  for c in $CHECKS; do
    out=$(VERIF_REPO=$W VERIF_BUDGET_S=$B VERIF_REPLAY_DIR=/tmp/matrix-replays $V/bin/vcheck $c 2>&1); rc=$?
    case $rc in 0) printf "%4s" ".";; 1) printf "%4s" "X"; echo "$n $c $(echo "$out" | grep -E '^violation class' | head -1)" >> /tmp/matrix-detail.txt;; *) printf "%4s" "?";; esac
  done; echo
  git -C /repo worktree remove --force $W
done
