#!/bin/bash
# usage: regress.sh [budget]  -- every stored seeded change must still be reported by the check of the property it breaks
B=${1:-10}; V=$(cd "$(dirname "$0")/.." && pwd); fail=0
for d in $V/seeded/*/; do
  [ -f $d/meta.json ] || continue
  n=$(basename $d); p=$(jq -r .breaks_property $d/meta.json)
  W=/tmp/wt-regress-$$; git -C /repo worktree add -q --detach $W HEAD; (cd $W && git apply $d/patch.diff)
  out=$(VERIF_REPO=$W VERIF_BUDGET_S=$B $V/bin/vcheck $p 2>&1); rc=$?
  git -C /repo worktree remove --force $W
  if [ $rc = 1 ]; then printf "%-45s %s caught (%s)\n" $n $p "$(echo "$out" | grep -E '^violation class' | head -1 | cut -c18-70)"; else printf "%-45s %s NOT CAUGHT (exit %s)\n" $n $p $rc; fail=1; fi
done
rm -f $V/replays/*.json
exit $fail
