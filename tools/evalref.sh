#!/bin/bash
# usage: evalref.sh <srcdir> <name> [budget]  -- run ALL checks against a behaviour-preserving refactoring; expect no alarm
SRC=$1; NAME=$2; B=${3:-8}
mkdir -p /verif/seeded/refactorings/$NAME; cp $SRC/patch.diff $SRC/NOTES.md /verif/seeded/refactorings/$NAME/ 2>/dev/null
W=/tmp/wt-ref-$$; git -C /repo worktree add -q --detach $W HEAD; trap "git -C /repo worktree remove --force $W" EXIT
(cd $W && git apply $SRC/patch.diff) || { echo "patch does not apply"; exit 3; }
(cd $W && go build ./... && go test -vet=off -count=1 ./... >/dev/null 2>&1) && echo "suite: pass" || echo "suite: FAIL"
RES=""
for c in C01 C03 C04 C05 C06 C07 C08 C09 C10 C11 C12 C18 C19 C20; do
  out=$(VERIF_REPO=$W VERIF_BUDGET_S=$B /verif/bin/vcheck $c 2>&1); rc=$?
  printf "%s:%s " $c $rc
  if [ $rc != 0 ]; then echo; echo "$out" | grep -E "^(violation class|message|vcheck:|instrument:)" | head -3 | cut -c1-400; fi
  RES="$RES\"$c\":$rc,"
done; echo
echo "{\"name\":\"$NAME\",\"kind\":\"behaviour-preserving refactoring (no alarm expected)\",\"exit_codes\":{${RES%,}},\"budget_s\":$B}" > /verif/seeded/refactorings/$NAME/result.json
rm -f /verif/replays/*.json
