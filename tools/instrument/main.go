// Command instrument rewrites a scratch copy of creachadair/jrpc2 in place so
// that every synchronisation operation of the library passes through the
// simulator runtime (package verifrt, copied into the scratch module).
//
// It never touches /repo: the supervisor (bin/vcheck) copies the working tree
// to a scratch directory first and points this tool at the copy.
//
// Rewrites (type-checked with go/packages):
//
//	X.Lock()            (sync.Mutex)      -> verifrt.BeforeLock(site, probe(X)); X.Lock()
//	defer X.Lock()                        -> defer func() { BeforeLock; X.Lock() }()
//	go f(a...)                            -> verifrt.Go(site, func() { f(a...) }) with args bound at the go statement
//	<-c, v := <-c, v = <-c, c <- v        -> h := verifrt.Yield(site); op; verifrt.Woke(h, site)
//	for range ch { B }                    -> h := Yield; for range ch { Woke(h); B }; Woke(h)
//	select (blocking)                     -> h := Yield; select { case ...: Woke(h); ... }
//	select with default                   -> Yield before
//	wg.Wait(), sem.Acquire(...)           -> Yield / Woke around the statement
//
// Release-type operations (Unlock, wg.Done/Add, sem.Release, close) need no
// scheduling point: in a data-race-free program they are left movers, so every
// behaviour is reachable with context switches placed before acquire-type
// operations only.
//
// The tool fails closed (exit 2) on constructs it cannot place under the
// single-runner discipline: sync.Cond, sync.RWMutex locking, sync.Once.Do with
// blocking bodies is allowed (Once itself is not a scheduling concern), channel
// operations in expression positions it does not understand, time.AfterFunc,
// context.AfterFunc.
package main

import (
	"bytes"
	"encoding/json"
	"flag"
	"fmt"
	"go/ast"
	"go/format"
	"go/token"
	"go/types"
	"os"
	"path/filepath"
	"sort"
	"strings"

	"golang.org/x/tools/go/packages"
)

const rtImport = "github.com/creachadair/jrpc2/verifrt"

type site struct {
	ID   string `json:"id"`
	Kind string `json:"kind"`
	Pos  string `json:"pos"`
}

type rewriter struct {
	fset    *token.FileSet
	info    *types.Info
	relfile string
	sites   []site
	nvar    int
	used    bool // whether verifrt was referenced in this file
	errs    []string
}

func main() {
	dir := flag.String("dir", "", "root of the scratch copy of the module")
	report := flag.String("report", "", "write a JSON site report here")
	flag.Parse()
	if *dir == "" {
		fmt.Fprintln(os.Stderr, "usage: instrument -dir <scratch copy>")
		os.Exit(2)
	}
	cfg := &packages.Config{
		Mode: packages.NeedName | packages.NeedSyntax | packages.NeedTypes | packages.NeedTypesInfo |
			packages.NeedFiles | packages.NeedImports | packages.NeedDeps | packages.NeedCompiledGoFiles,
		Dir: *dir,
	}
	// The library's public packages and every package of the module they import
	// (a helper moved into internal/... runs under the simulator like the rest).
	all0, err := packages.Load(cfg, "./...")
	if err != nil {
		fmt.Fprintln(os.Stderr, "instrument: load:", err)
		os.Exit(2)
	}
	var modPath string
	byPath := map[string]*packages.Package{}
	for _, p := range all0 {
		byPath[p.PkgPath] = p
		if modPath == "" || len(p.PkgPath) < len(modPath) {
			modPath = p.PkgPath
		}
	}
	want := map[string]bool{}
	var visit func(path string)
	visit = func(path string) {
		p := byPath[path]
		if p == nil || want[path] || strings.HasSuffix(path, "/verifrt") || strings.HasSuffix(path, "/verifh") {
			return
		}
		want[path] = true
		for ip := range p.Imports {
			if ip == modPath || strings.HasPrefix(ip, modPath+"/") {
				visit(ip)
			}
		}
	}
	for _, sub := range []string{"", "/channel", "/server", "/jhttp", "/handler"} {
		visit(modPath + sub)
	}
	var pkgs []*packages.Package
	for _, p := range all0 {
		if want[p.PkgPath] {
			pkgs = append(pkgs, p)
		}
	}
	var all []site
	bad := false
	for _, p := range pkgs {
		for _, e := range p.Errors {
			fmt.Fprintln(os.Stderr, "instrument: package error:", e)
			bad = true
		}
	}
	if bad {
		os.Exit(2)
	}
	sort.Slice(pkgs, func(i, j int) bool { return pkgs[i].PkgPath < pkgs[j].PkgPath })
	for _, p := range pkgs {
		for i, f := range p.Syntax {
			name := p.CompiledGoFiles[i]
			if strings.HasSuffix(name, "_test.go") {
				continue
			}
			rel, _ := filepath.Rel(*dir, name)
			rw := &rewriter{fset: p.Fset, info: p.TypesInfo, relfile: rel}
			rw.file(f)
			if len(rw.errs) != 0 {
				for _, e := range rw.errs {
					fmt.Fprintln(os.Stderr, "instrument: refused:", e)
				}
				os.Exit(2)
			}
			if !rw.used {
				continue
			}
			addImport(f, rtImport)
			keepImports(f)
			f.Comments = nil
			stripDocs(f)
			var buf bytes.Buffer
			if err := format.Node(&buf, p.Fset, f); err != nil {
				fmt.Fprintln(os.Stderr, "instrument: print:", name, err)
				os.Exit(2)
			}
			if err := os.WriteFile(name, buf.Bytes(), 0o644); err != nil {
				fmt.Fprintln(os.Stderr, "instrument:", err)
				os.Exit(2)
			}
			all = append(all, rw.sites...)
		}
	}
	if *report != "" {
		b, _ := json.MarshalIndent(all, "", " ")
		os.WriteFile(*report, b, 0o644)
	}
	fmt.Printf("instrument: %d sites\n", len(all))
}

func stripDocs(f *ast.File) {
	f.Doc = nil
	ast.Inspect(f, func(n ast.Node) bool {
		switch d := n.(type) {
		case *ast.GenDecl:
			d.Doc = nil
		case *ast.FuncDecl:
			d.Doc = nil
		case *ast.Field:
			d.Doc, d.Comment = nil, nil
		case *ast.ValueSpec:
			d.Doc, d.Comment = nil, nil
		case *ast.TypeSpec:
			d.Doc, d.Comment = nil, nil
		case *ast.ImportSpec:
			d.Doc, d.Comment = nil, nil
		}
		return true
	})
}

// keepImports: calls into time, context and sync may all have been rewritten
// away; a reference is added so that the file still uses what it imports.
func keepImports(f *ast.File) {
	ref := map[string]string{"time": "Now", "context": "Background", "sync": "NewCond", "sync/atomic": "AddInt32", "golang.org/x/sync/errgroup": "WithContext"}
	for _, im := range f.Imports {
		path := strings.Trim(im.Path.Value, `"`)
		sym, ok := ref[path]
		if !ok || (im.Name != nil && (im.Name.Name == "_" || im.Name.Name == ".")) {
			continue
		}
		name := path[strings.LastIndex(path, "/")+1:]
		if im.Name != nil {
			name = im.Name.Name
		}
		f.Decls = append(f.Decls, &ast.GenDecl{Tok: token.VAR, Specs: []ast.Spec{&ast.ValueSpec{
			Names:  []*ast.Ident{ast.NewIdent("_")},
			Values: []ast.Expr{&ast.SelectorExpr{X: ast.NewIdent(name), Sel: ast.NewIdent(sym)}},
		}}})
	}
}

func addImport(f *ast.File, path string) {
	spec := &ast.ImportSpec{Path: &ast.BasicLit{Kind: token.STRING, Value: fmt.Sprintf("%q", path)}}
	decl := &ast.GenDecl{Tok: token.IMPORT, Specs: []ast.Spec{spec}}
	f.Decls = append([]ast.Decl{decl}, f.Decls...)
	f.Imports = append(f.Imports, spec)
}

func (rw *rewriter) refuse(n ast.Node, why string) {
	rw.errs = append(rw.errs, fmt.Sprintf("%s: %s", rw.fset.Position(n.Pos()), why))
}

func (rw *rewriter) site(n ast.Node, kind string) *ast.BasicLit {
	pos := rw.fset.Position(n.Pos())
	id := fmt.Sprintf("%s:%d:%s", rw.relfile, pos.Line, kind)
	rw.sites = append(rw.sites, site{ID: id, Kind: kind, Pos: fmt.Sprintf("%s:%d", rw.relfile, pos.Line)})
	rw.used = true
	return &ast.BasicLit{Kind: token.STRING, Value: fmt.Sprintf("%q", id)}
}

func (rw *rewriter) fresh(prefix string) *ast.Ident {
	rw.nvar++
	return ast.NewIdent(fmt.Sprintf("_v%s%d", prefix, rw.nvar))
}

func rt(name string) ast.Expr {
	return &ast.SelectorExpr{X: ast.NewIdent("verifrt"), Sel: ast.NewIdent(name)}
}

func call(fun ast.Expr, args ...ast.Expr) *ast.CallExpr { return &ast.CallExpr{Fun: fun, Args: args} }

// methodOf reports the (package path, type name, method name) of a call to a
// method, or "" strings if the call is not a method call on a named type.
func (rw *rewriter) methodOf(c *ast.CallExpr) (pkg, typ, meth string) {
	sel, ok := c.Fun.(*ast.SelectorExpr)
	if !ok {
		return
	}
	s := rw.info.Selections[sel]
	if s == nil || s.Kind() != types.MethodVal {
		return
	}
	fn, ok := s.Obj().(*types.Func)
	if !ok {
		return
	}
	sig := fn.Type().(*types.Signature)
	if sig.Recv() == nil {
		return
	}
	t := sig.Recv().Type()
	if p, ok := t.(*types.Pointer); ok {
		t = p.Elem()
	}
	if n, ok := t.(*types.Named); ok && n.Obj().Pkg() != nil {
		return n.Obj().Pkg().Path(), n.Obj().Name(), fn.Name()
	}
	return
}

// funcOf reports the package path and name of a called package-level function.
func (rw *rewriter) funcOf(c *ast.CallExpr) (pkg, name string) {
	var id *ast.Ident
	switch f := c.Fun.(type) {
	case *ast.SelectorExpr:
		id = f.Sel
	case *ast.Ident:
		id = f
	default:
		return
	}
	if fn, ok := rw.info.Uses[id].(*types.Func); ok && fn.Pkg() != nil {
		if sig := fn.Type().(*types.Signature); sig.Recv() == nil {
			return fn.Pkg().Path(), fn.Name()
		}
	}
	return
}

func (rw *rewriter) file(f *ast.File) {
	// First pass: refuse constructs that cannot be controlled.
	ast.Inspect(f, func(n ast.Node) bool {
		c, ok := n.(*ast.CallExpr)
		if !ok {
			return true
		}
		// sync.Cond is replaced by a simulator-side condition queue keyed by the
		// Cond's address (Wait re-locks its mutex, which must not block natively)
		if p, t, m := rw.methodOf(c); p == "sync" && t == "Cond" && (m == "Wait" || m == "Signal" || m == "Broadcast") {
			x := c.Fun.(*ast.SelectorExpr).X
			if tv, ok := rw.info.Types[x]; ok {
				if _, isPtr := tv.Type.(*types.Pointer); !isPtr {
					x = &ast.UnaryExpr{Op: token.AND, X: x}
				}
			}
			c.Fun = rt("Cond" + m)
			if m == "Wait" {
				c.Args = []ast.Expr{rw.site(c, "condwait"), x}
			} else {
				c.Args = []ast.Expr{x}
				rw.used = true
			}
		}
		// (*sync.Once).Do: callers queue on the simulator's side (see verifrt.OnceDo)
		if p, t, m := rw.methodOf(c); p == "sync" && t == "Once" && m == "Do" && len(c.Args) == 1 {
			x := c.Fun.(*ast.SelectorExpr).X
			if tv, ok := rw.info.Types[x]; ok {
				if _, isPtr := tv.Type.(*types.Pointer); !isPtr {
					x = &ast.UnaryExpr{Op: token.AND, X: x}
				}
			}
			c.Fun = rt("OnceDo")
			c.Args = []ast.Expr{rw.site(c, "once"), x, c.Args[0]}
		}
		if p, name := rw.funcOf(c); p == "sync" && (name == "OnceFunc" || name == "OnceValue" || name == "OnceValues") {
			c.Fun = rt(name) // a once the simulator sees
			rw.used = true
		}
		if p, name := rw.funcOf(c); p == "context" && (name == "WithTimeoutCause" || name == "WithDeadlineCause") && len(c.Args) == 3 {
			c.Fun = rt("Context" + name)
			rw.used = true
		}
		// sync/atomic operations are scheduling points: a check-then-act sequence
		// on atomics is free of data races but not atomic as a whole. The call
		//	x.Op(args)   becomes   verifrt.AtomicNR(site, x.Op, args)
		// which yields to the scheduler and then performs the operation.
		{
			p, _, _ := rw.methodOf(c)
			if p != "sync/atomic" {
				p, _ = rw.funcOf(c)
			}
			if p == "sync/atomic" && !handled[c] {
				handled[c] = true
				if len(c.Args) > 3 || c.Ellipsis.IsValid() {
					rw.refuse(c, "sync/atomic call shape not supported")
				} else {
					kind := "V"
					if tv, ok := rw.info.Types[c]; ok && tv.Type != nil {
						if tup, isTup := tv.Type.(*types.Tuple); !isTup || tup.Len() > 0 {
							kind = "R"
						}
					}
					name := fmt.Sprintf("Atomic%d%s", len(c.Args), kind)
					c.Args = append([]ast.Expr{rw.site(c, "atomic"), c.Fun}, c.Args...)
					c.Fun = rt(name)
				}
			}
		}
		// goroutines started by errgroup are adopted by the simulator (a group
		// with a limit blocks inside Go, outside the simulator's view: refused)
		if p, t, m := rw.methodOf(c); p == "golang.org/x/sync/errgroup" && t == "Group" {
			switch m {
			case "Go", "TryGo":
				if len(c.Args) == 1 {
					c.Args[0] = call(rt("Adopted"), rw.site(c, "errgroup"), c.Args[0])
				}
			case "SetLimit":
				rw.refuse(c, "errgroup.SetLimit makes Go block outside the simulator's control")
			}
		}
		// timers and tickers are made known to the scheduler
		if p, name := rw.funcOf(c); p == "time" && (name == "NewTimer" || name == "NewTicker" || name == "Tick") && len(c.Args) == 1 {
			c.Fun = rt(name)
			rw.used = true
		}
		if p, t, m := rw.methodOf(c); p == "time" && ((t == "Timer" && (m == "Reset" || m == "Stop")) || (t == "Ticker" && (m == "Stop" || m == "Reset"))) {
			x := c.Fun.(*ast.SelectorExpr).X
			c.Fun = rt(t + m)
			c.Args = append([]ast.Expr{x}, c.Args...)
			rw.used = true
		}
		// callbacks run by the runtime in goroutines of their own are adopted by
		// the simulator (they park before running the callback)
		if p, name := rw.funcOf(c); p == "context" && name == "AfterFunc" && len(c.Args) == 2 {
			c.Fun = rt("ContextAfterFunc")
			c.Args = append([]ast.Expr{rw.site(c, "afterfunc")}, c.Args...)
		} else if p == "time" && name == "AfterFunc" && len(c.Args) == 2 {
			c.Fun = rt("TimeAfterFunc")
			c.Args = append([]ast.Expr{rw.site(c, "afterfunc")}, c.Args...)
		}
		// timers the library creates itself are registered with the simulator so
		// that the fake clock is advanced to them when nothing else can run
		if p, name := rw.funcOf(c); p == "time" && name == "After" && len(c.Args) == 1 {
			c.Fun = rt("After")
			rw.used = true
		} else if p == "context" && (name == "WithTimeout" || name == "WithDeadline") && len(c.Args) == 2 {
			c.Fun = rt("Context" + name)
			rw.used = true
		}
		return true
	})
	// References to timer and context functions as values (var after = time.After)
	// are redirected to replacements of the same signature.
	valueOf := map[string]string{
		"time.Sleep": "Sleep", "time.After": "After", "time.NewTimer": "NewTimer", "time.NewTicker": "NewTicker", "time.Tick": "Tick",
		"time.AfterFunc": "TimeAfterFuncV", "context.AfterFunc": "ContextAfterFuncV",
		"context.WithTimeout": "ContextWithTimeout", "context.WithDeadline": "ContextWithDeadline",
		"context.WithTimeoutCause": "ContextWithTimeoutCause", "context.WithDeadlineCause": "ContextWithDeadlineCause",
	}
	inCall := map[*ast.SelectorExpr]bool{}
	ast.Inspect(f, func(n ast.Node) bool {
		if c, ok := n.(*ast.CallExpr); ok {
			if sel, ok := c.Fun.(*ast.SelectorExpr); ok {
				inCall[sel] = true
			}
		}
		return true
	})
	ast.Inspect(f, func(n ast.Node) bool {
		sel, ok := n.(*ast.SelectorExpr)
		if !ok || inCall[sel] {
			return true
		}
		if fn, ok := rw.info.Uses[sel.Sel].(*types.Func); ok && fn.Pkg() != nil {
			if sig, _ := fn.Type().(*types.Signature); sig != nil && sig.Recv() == nil {
				if repl, ok := valueOf[fn.Pkg().Path()+"."+fn.Name()]; ok {
					sel.X = ast.NewIdent("verifrt")
					sel.Sel = ast.NewIdent(repl)
					rw.used = true
				}
			}
		}
		return true
	})
	// Second pass: rewrite statement lists everywhere.
	ast.Inspect(f, func(n ast.Node) bool {
		switch b := n.(type) {
		case *ast.BlockStmt:
			b.List = rw.list(b.List)
		case *ast.CaseClause:
			b.Body = rw.list(b.Body)
		case *ast.CommClause:
			b.Body = rw.list(b.Body)
		}
		return true
	})
	// Third pass: every channel operation, go statement and blocking call must
	// have been handled (marked); anything left over is refused.
	ast.Inspect(f, func(n ast.Node) bool {
		switch x := n.(type) {
		case *ast.UnaryExpr:
			if x.Op == token.ARROW && !handled[x] {
				rw.refuse(x, "channel receive in an unsupported position")
			}
		case *ast.SendStmt:
			if !handled[x] {
				rw.refuse(x, "channel send in an unsupported position")
			}
		case *ast.GoStmt:
			rw.refuse(x, "go statement in an unsupported position")
		case *ast.SelectStmt:
			if !handled[x] {
				rw.refuse(x, "select in an unsupported position")
			}
		case *ast.RangeStmt:
			if rw.isChan(x.X) && !handled[x] {
				rw.refuse(x, "range over channel in an unsupported position")
			}
		case *ast.CallExpr:
			if rw.blockingCall(x) != "" && !handled[x] {
				rw.refuse(x, "blocking call in an unsupported position")
			}
			if rw.isMutexLock(x) && !handled[x] {
				rw.refuse(x, "Lock in an unsupported position")
			}
		}
		return true
	})
}

var handled = map[ast.Node]bool{}

func (rw *rewriter) isChan(e ast.Expr) bool {
	tv, ok := rw.info.Types[e]
	if !ok || tv.Type == nil {
		return false
	}
	_, ok = tv.Type.Underlying().(*types.Chan)
	return ok
}

// blockingCall classifies calls that may block natively.
func (rw *rewriter) blockingCall(c *ast.CallExpr) string {
	p, t, m := rw.methodOf(c)
	switch {
	case p == "sync" && t == "WaitGroup" && m == "Wait":
		return "wgwait"
	case p == "golang.org/x/sync/semaphore" && t == "Weighted" && m == "Acquire":
		return "semacquire"
	case p == "golang.org/x/sync/errgroup" && t == "Group" && m == "Wait":
		return "egwait"
	}
	if fp, name := rw.funcOf(c); fp == "time" && name == "Sleep" && len(c.Args) == 1 {
		c.Fun = rt("Sleep")
		rw.used = true
		return "sleep"
	}
	if fp, name := rw.funcOf(c); fp == rtImport && name == "Sleep" {
		return "sleep"
	}
	return ""
}

func (rw *rewriter) isMutexLock(c *ast.CallExpr) bool {
	p, t, m := rw.methodOf(c)
	return p == "sync" && ((t == "Mutex" && m == "Lock") || (t == "RWMutex" && (m == "Lock" || m == "RLock")))
}

// isLockerLock: Lock called through the interface sync.Locker.
func (rw *rewriter) isLockerLock(c *ast.CallExpr) bool {
	sel, ok := c.Fun.(*ast.SelectorExpr)
	if !ok || sel.Sel.Name != "Lock" || len(c.Args) != 0 {
		return false
	}
	tv, ok := rw.info.Types[sel.X]
	if !ok || tv.Type == nil {
		return false
	}
	n, ok := tv.Type.(*types.Named)
	return ok && n.Obj().Pkg() != nil && n.Obj().Pkg().Path() == "sync" && n.Obj().Name() == "Locker"
}

func (rw *rewriter) beforeLock(c *ast.CallExpr) ast.Stmt {
	x := c.Fun.(*ast.SelectorExpr).X
	// the probe runs on the scheduler's goroutine, again and again: a receiver
	// that is computed by a call must not be computed there
	hasCall := false
	ast.Inspect(x, func(n ast.Node) bool {
		if _, ok := n.(*ast.CallExpr); ok {
			hasCall = true
		}
		return !hasCall
	})
	if hasCall {
		rw.refuse(c, "Lock on the result of a call (bind the mutex to a variable first)")
	}
	tryName, unlockName := "TryLock", "Unlock"
	if c.Fun.(*ast.SelectorExpr).Sel.Name == "RLock" {
		tryName, unlockName = "TryRLock", "RUnlock"
	}
	try := call(&ast.SelectorExpr{X: x, Sel: ast.NewIdent(tryName)})
	unlock := call(&ast.SelectorExpr{X: x, Sel: ast.NewIdent(unlockName)})
	probe := &ast.FuncLit{
		Type: &ast.FuncType{Params: &ast.FieldList{}, Results: &ast.FieldList{List: []*ast.Field{{Type: ast.NewIdent("bool")}}}},
		Body: &ast.BlockStmt{List: []ast.Stmt{
			&ast.IfStmt{Cond: try, Body: &ast.BlockStmt{List: []ast.Stmt{
				&ast.ExprStmt{X: unlock},
				&ast.ReturnStmt{Results: []ast.Expr{ast.NewIdent("true")}},
			}}},
			&ast.ReturnStmt{Results: []ast.Expr{ast.NewIdent("false")}},
		}},
	}
	return &ast.ExprStmt{X: call(rt("BeforeLock"), rw.site(c, "lock"), probe)}
}

// recvOf returns the receive expression if e is exactly `<-c` (possibly parenthesised).
func recvOf(e ast.Expr) *ast.UnaryExpr {
	for {
		p, ok := e.(*ast.ParenExpr)
		if !ok {
			break
		}
		e = p.X
	}
	if u, ok := e.(*ast.UnaryExpr); ok && u.Op == token.ARROW {
		return u
	}
	return nil
}

func (rw *rewriter) yieldAssign(h *ast.Ident, n ast.Node, kind string) (ast.Stmt, *ast.BasicLit) {
	s := rw.site(n, kind)
	return &ast.AssignStmt{Lhs: []ast.Expr{h}, Tok: token.DEFINE, Rhs: []ast.Expr{call(rt("Yield"), s)}}, s
}

func woke(h *ast.Ident, s *ast.BasicLit) ast.Stmt {
	return &ast.ExprStmt{X: call(rt("Woke"), h, s)}
}

func (rw *rewriter) list(in []ast.Stmt) []ast.Stmt {
	var out []ast.Stmt
	for _, st := range in {
		out = append(out, rw.stmt(st)...)
	}
	return out
}

// bracket wraps a natively blocking statement.
func (rw *rewriter) bracket(st ast.Stmt, n ast.Node, kind string) []ast.Stmt {
	h := rw.fresh("h")
	y, s := rw.yieldAssign(h, n, kind)
	return []ast.Stmt{y, st, woke(h, s)}
}

func (rw *rewriter) stmt(st ast.Stmt) []ast.Stmt {
	switch s := st.(type) {
	case *ast.LabeledStmt:
		inner := rw.stmt(s.Stmt)
		if len(inner) == 1 {
			s.Stmt = inner[0]
			return []ast.Stmt{s}
		}
		// Keep the label on the original statement (needed for labelled loops).
		for i, x := range inner {
			if x == s.Stmt {
				s.Stmt = x
				inner[i] = s
				return inner
			}
		}
		// a labelled select that was rewritten into { tries...; switch chosen {...} }:
		// "break L" inside a case body leaves the select, i.e. the final switch
		if _, ok := s.Stmt.(*ast.SelectStmt); ok {
			for _, x := range inner {
				if b, ok := x.(*ast.BlockStmt); ok && len(b.List) > 0 {
					if sw, ok := b.List[len(b.List)-1].(*ast.SwitchStmt); ok {
						b.List[len(b.List)-1] = &ast.LabeledStmt{Label: s.Label, Stmt: sw}
						return inner
					}
				}
			}
		}
		rw.refuse(s, "labelled statement rewrite")
		return []ast.Stmt{st}

	case *ast.ExprStmt:
		if u := recvOf(s.X); u != nil && !handled[u] {
			handled[u] = true
			return rw.bracket(st, u, "recv")
		}
		if c, ok := s.X.(*ast.CallExpr); ok && !handled[c] {
			if rw.isMutexLock(c) {
				handled[c] = true
				return []ast.Stmt{rw.beforeLock(c), st}
			}
			if rw.isLockerLock(c) {
				// x.Lock() on a sync.Locker value (cond.L.Lock())
				handled[c] = true
				x := c.Fun.(*ast.SelectorExpr).X
				return []ast.Stmt{&ast.ExprStmt{X: call(rt("BeforeLocker"), rw.site(c, "lock"), x)}, st}
			}
			if p, t, m := rw.methodOf(c); p == "sync" && t == "WaitGroup" && m == "Go" && len(c.Args) == 1 {
				// wg.Go(f)  ->  wg.Add(1); verifrt.Go(site, func() { defer wg.Done(); f() })
				handled[c] = true
				x := c.Fun.(*ast.SelectorExpr).X
				fv := rw.fresh("f")
				bind := &ast.AssignStmt{Lhs: []ast.Expr{fv}, Tok: token.DEFINE, Rhs: []ast.Expr{c.Args[0]}}
				add := &ast.ExprStmt{X: call(&ast.SelectorExpr{X: x, Sel: ast.NewIdent("Add")}, &ast.BasicLit{Kind: token.INT, Value: "1"})}
				body := &ast.FuncLit{Type: &ast.FuncType{Params: &ast.FieldList{}}, Body: &ast.BlockStmt{List: []ast.Stmt{
					&ast.DeferStmt{Call: call(&ast.SelectorExpr{X: x, Sel: ast.NewIdent("Done")})},
					&ast.ExprStmt{X: call(fv)},
				}}}
				return []ast.Stmt{bind, add, &ast.ExprStmt{X: call(rt("Go"), rw.site(c, "go"), body)}}
			}
			if k := rw.blockingCall(c); k != "" {
				handled[c] = true
				return rw.bracket(st, c, k)
			}
		}

	case *ast.DeclStmt:
		if n := rw.firstBlocking(s); n != nil {
			return rw.bracket(st, n, "recv")
		}

	case *ast.AssignStmt:
		if len(s.Rhs) == 1 {
			if u := recvOf(s.Rhs[0]); u != nil && !handled[u] {
				handled[u] = true
				return rw.bracket(st, u, "recv")
			}
			if c, ok := s.Rhs[0].(*ast.CallExpr); ok && !handled[c] {
				if k := rw.blockingCall(c); k != "" {
					handled[c] = true
					return rw.bracket(st, c, k)
				}
			}
		}

	case *ast.IfStmt:
		// if v, ok := <-ch; cond {...}
		if a, ok := s.Init.(*ast.AssignStmt); ok && len(a.Rhs) == 1 && a.Tok == token.DEFINE {
			if u := recvOf(a.Rhs[0]); u != nil && !handled[u] {
				handled[u] = true
				h := rw.fresh("h")
				y, site := rw.yieldAssign(h, u, "recv")
				s.Init = nil
				return []ast.Stmt{&ast.BlockStmt{List: []ast.Stmt{y, a, woke(h, site), s}}}
			}
		}
		// if err := sem.Acquire(ctx, 1); err != nil {...}
		if a, ok := s.Init.(*ast.AssignStmt); ok && len(a.Rhs) == 1 {
			if c, ok := a.Rhs[0].(*ast.CallExpr); ok && !handled[c] {
				if k := rw.blockingCall(c); k != "" && a.Tok == token.DEFINE {
					handled[c] = true
					// Hoist: { h := Yield; err := call; Woke; if ; cond {...} } in a block to keep scoping.
					h := rw.fresh("h")
					y, site := rw.yieldAssign(h, c, k)
					s.Init = nil
					return []ast.Stmt{&ast.BlockStmt{List: []ast.Stmt{y, a, woke(h, site), s}}}
				}
			}
		}

	case *ast.ReturnStmt:
		// return <-ch   /   return g.Wait()   ->   { h := Yield; v := ...; Woke; return v }
		if len(s.Results) == 1 {
			var n ast.Node
			kind := ""
			if u := recvOf(s.Results[0]); u != nil && !handled[u] {
				n, kind = u, "recv"
				handled[u] = true
			} else if c, ok := s.Results[0].(*ast.CallExpr); ok && !handled[c] {
				if k := rw.blockingCall(c); k != "" {
					if tv, ok := rw.info.Types[c]; ok {
						if _, isTup := tv.Type.(*types.Tuple); !isTup {
							n, kind = c, k
							handled[c] = true
						}
					}
				}
			}
			if n != nil {
				h := rw.fresh("h")
				v := rw.fresh("v")
				y, site := rw.yieldAssign(h, n, kind)
				bind := &ast.AssignStmt{Lhs: []ast.Expr{v}, Tok: token.DEFINE, Rhs: []ast.Expr{s.Results[0]}}
				s.Results[0] = v
				return []ast.Stmt{&ast.BlockStmt{List: []ast.Stmt{y, bind, woke(h, site), s}}}
			}
		}

	case *ast.SendStmt:
		if handled[s] {
			break
		}
		handled[s] = true
		return rw.bracket(st, s, "send")

	case *ast.GoStmt:
		return rw.goStmt(s)

	case *ast.DeferStmt:
		if rw.isMutexLock(s.Call) && !handled[s.Call] {
			handled[s.Call] = true
			lock := &ast.ExprStmt{X: s.Call}
			fl := &ast.FuncLit{Type: &ast.FuncType{Params: &ast.FieldList{}},
				Body: &ast.BlockStmt{List: []ast.Stmt{rw.beforeLock(s.Call), lock}}}
			return []ast.Stmt{&ast.DeferStmt{Call: call(fl)}}
		}
		if k := rw.blockingCall(s.Call); k != "" && !handled[s.Call] {
			// defer wg.Wait()  ->  defer func() { h := Yield; wg.Wait(); Woke }()
			// (the receiver is evaluated when the deferred function runs; for the
			// addressable variables this is used with that makes no difference)
			handled[s.Call] = true
			h := rw.fresh("h")
			y, site := rw.yieldAssign(h, s.Call, k)
			fl := &ast.FuncLit{Type: &ast.FuncType{Params: &ast.FieldList{}},
				Body: &ast.BlockStmt{List: []ast.Stmt{y, &ast.ExprStmt{X: s.Call}, woke(h, site)}}}
			return []ast.Stmt{&ast.DeferStmt{Call: call(fl)}}
		}

	case *ast.SelectStmt:
		if handled[s] {
			break
		}
		handled[s] = true
		hasDefault := false
		for _, cc := range s.Body.List {
			c := cc.(*ast.CommClause)
			if c.Comm == nil {
				hasDefault = true
				continue
			}
			// mark the comm operations as handled
			ast.Inspect(c.Comm, func(n ast.Node) bool {
				switch x := n.(type) {
				case *ast.UnaryExpr:
					if x.Op == token.ARROW {
						handled[x] = true
					}
				case *ast.SendStmt:
					handled[x] = true
				}
				return true
			})
		}
		h := rw.fresh("h")
		if hasDefault {
			y := &ast.ExprStmt{X: call(rt("Yield"), rw.site(s, "trysel"))}
			return []ast.Stmt{y, st}
		}
		y, site := rw.yieldAssign(h, s, "select")
		if pre := rw.prioritised(s, site, woke(h, site)); pre != nil {
			// A select entered with several cases ready is decided by the Go
			// runtime at random. Try the cases one by one first, in an order
			// the simulator draws, and only then block on all of them (a
			// blocked select is decided by whoever wakes it).
			return []ast.Stmt{y, pre}
		}
		for _, cc := range s.Body.List {
			c := cc.(*ast.CommClause)
			c.Body = append([]ast.Stmt{woke(h, site)}, c.Body...)
		}
		return []ast.Stmt{y, st}

	case *ast.RangeStmt:
		if rw.isChan(s.X) && !handled[s] {
			handled[s] = true
			h := rw.fresh("h")
			y, site := rw.yieldAssign(h, s, "rangechan")
			s.Body.List = append([]ast.Stmt{woke(h, site)}, s.Body.List...)
			return []ast.Stmt{y, st, woke(h, site)}
		}
	}
	// A simple statement with a receive or a blocking call somewhere inside an
	// expression (f(<-ch), x = append(x, <-ch)): the whole statement is bracketed.
	switch st.(type) {
	case *ast.ExprStmt, *ast.AssignStmt, *ast.IncDecStmt:
		if n := rw.firstBlocking(st); n != nil {
			return rw.bracket(st, n, "recv")
		}
	}
	return []ast.Stmt{st}
}

// firstBlocking marks every not yet handled receive and blocking call inside n
// (function literals excepted) as handled and returns the first, or nil.
func (rw *rewriter) firstBlocking(n ast.Node) ast.Node {
	var first ast.Node
	ast.Inspect(n, func(x ast.Node) bool {
		switch y := x.(type) {
		case *ast.FuncLit:
			return false
		case *ast.UnaryExpr:
			if y.Op == token.ARROW && !handled[y] {
				handled[y] = true
				if first == nil {
					first = y
				}
			}
		case *ast.CallExpr:
			if !handled[y] && rw.blockingCall(y) != "" {
				handled[y] = true
				if first == nil {
					first = y
				}
			}
		}
		return true
	})
	return first
}

// prioritised rewrites a blocking select whose cases bind no values:
//
//	_vc := -1
//	for _, _vi := range verifrt.SelectOrder(site, n) {
//		switch _vi {
//		case 0: select { case <-a: _vc = 0; default: }
//		...
//		}
//		if _vc >= 0 { break }
//	}
//	if _vc < 0 { select { case <-a: _vc = 0; case b <- v: _vc = 1 } }
//	switch _vc { case 0: A; case 1: B }
//
// It returns nil if a case binds a received value (such selects keep the plain
// bracket and the runtime's choice).
func (rw *rewriter) prioritised(s *ast.SelectStmt, site *ast.BasicLit, wokeStmt ast.Stmt) ast.Stmt {
	n := len(s.Body.List)
	for _, cc := range s.Body.List {
		c := cc.(*ast.CommClause)
		switch x := c.Comm.(type) {
		case *ast.ExprStmt:
			if recvOf(x.X) == nil {
				return nil
			}
		case *ast.SendStmt:
		default:
			return nil
		}
	}
	// Go evaluates the channel operands and send values of a select once, in
	// source order, on entering it. The rewrite mentions each communication up
	// to three times, so operands that are more than plain variables or field
	// selections are evaluated once into temporaries first.
	var hoisted []ast.Stmt
	hoist := func(e ast.Expr) ast.Expr {
		simple := true
		ast.Inspect(e, func(n ast.Node) bool {
			switch n.(type) {
			case *ast.CallExpr, *ast.UnaryExpr, *ast.IndexExpr, *ast.FuncLit, *ast.CompositeLit:
				simple = false
			}
			return simple
		})
		if simple {
			return e
		}
		v := rw.fresh("op")
		hoisted = append(hoisted, &ast.AssignStmt{Lhs: []ast.Expr{v}, Tok: token.DEFINE, Rhs: []ast.Expr{e}})
		return v
	}
	for _, cc := range s.Body.List {
		c := cc.(*ast.CommClause)
		switch x := c.Comm.(type) {
		case *ast.ExprStmt:
			u := recvOf(x.X)
			u.X = hoist(u.X)
		case *ast.SendStmt:
			x.Chan = hoist(x.Chan)
			x.Value = hoist(x.Value)
		}
	}
	vc := rw.fresh("c")
	vi := rw.fresh("i")
	lit := func(i int) ast.Expr { return &ast.BasicLit{Kind: token.INT, Value: fmt.Sprint(i)} }
	setc := func(i int) ast.Stmt {
		return &ast.AssignStmt{Lhs: []ast.Expr{vc}, Tok: token.ASSIGN, Rhs: []ast.Expr{lit(i)}}
	}
	var tries, full, bodies []ast.Stmt
	for i, cc := range s.Body.List {
		c := cc.(*ast.CommClause)
		one := &ast.SelectStmt{Body: &ast.BlockStmt{List: []ast.Stmt{
			&ast.CommClause{Comm: c.Comm, Body: []ast.Stmt{setc(i)}},
			&ast.CommClause{},
		}}}
		handled[one] = true
		tries = append(tries, &ast.CaseClause{List: []ast.Expr{lit(i)}, Body: []ast.Stmt{one}})
		full = append(full, &ast.CommClause{Comm: c.Comm, Body: []ast.Stmt{setc(i)}})
		bodies = append(bodies, &ast.CaseClause{List: []ast.Expr{lit(i)}, Body: c.Body})
	}
	fullSel := &ast.SelectStmt{Body: &ast.BlockStmt{List: full}}
	handled[fullSel] = true
	neg := &ast.UnaryExpr{Op: token.SUB, X: lit(1)}
	loop := &ast.RangeStmt{Key: ast.NewIdent("_"), Value: vi, Tok: token.DEFINE,
		X: call(rt("SelectOrder"), site, lit(n)),
		Body: &ast.BlockStmt{List: []ast.Stmt{
			&ast.SwitchStmt{Tag: vi, Body: &ast.BlockStmt{List: tries}},
			&ast.IfStmt{Cond: &ast.BinaryExpr{X: vc, Op: token.GEQ, Y: lit(0)}, Body: &ast.BlockStmt{List: []ast.Stmt{&ast.BranchStmt{Tok: token.BREAK}}}},
		}}}
	return &ast.BlockStmt{List: append(hoisted, []ast.Stmt{
		&ast.AssignStmt{Lhs: []ast.Expr{vc}, Tok: token.DEFINE, Rhs: []ast.Expr{neg}},
		loop,
		&ast.IfStmt{Cond: &ast.BinaryExpr{X: vc, Op: token.LSS, Y: lit(0)}, Body: &ast.BlockStmt{List: []ast.Stmt{fullSel}}},
		wokeStmt,
		&ast.SwitchStmt{Tag: vc, Body: &ast.BlockStmt{List: append(bodies, &ast.CaseClause{Body: []ast.Stmt{
			// keeps the rewritten statement a terminating one when every case returns
			&ast.ExprStmt{X: call(ast.NewIdent("panic"), &ast.BasicLit{Kind: token.STRING, Value: `"verif: no select case chosen"`})},
		}})}},
	}...)}
}

func (rw *rewriter) goStmt(g *ast.GoStmt) []ast.Stmt {
	c := g.Call
	if c.Ellipsis.IsValid() {
		rw.refuse(g, "go statement with variadic spread")
		return []ast.Stmt{g}
	}
	site := rw.site(g, "go")
	if fl, ok := c.Fun.(*ast.FuncLit); ok && len(c.Args) == 0 {
		return []ast.Stmt{&ast.ExprStmt{X: call(rt("Go"), site, fl)}}
	}
	// Bind the function value and arguments now, run them in the new goroutine.
	var lhs, rhs []ast.Expr
	fn := rw.fresh("f")
	lhs = append(lhs, fn)
	rhs = append(rhs, c.Fun)
	var args []ast.Expr
	for _, a := range c.Args {
		// untyped constants (nil, literals, true/false) cannot be bound to a
		// variable without their parameter's type: they stay where they are
		if tv, ok := rw.info.Types[a]; ok && (tv.IsNil() || tv.Value != nil) {
			args = append(args, a)
			continue
		}
		v := rw.fresh("a")
		lhs = append(lhs, v)
		rhs = append(rhs, a)
		args = append(args, v)
	}
	bind := &ast.AssignStmt{Lhs: lhs, Tok: token.DEFINE, Rhs: rhs}
	body := &ast.FuncLit{Type: &ast.FuncType{Params: &ast.FieldList{}},
		Body: &ast.BlockStmt{List: []ast.Stmt{&ast.ExprStmt{X: call(fn, args...)}}}}
	return []ast.Stmt{&ast.BlockStmt{List: []ast.Stmt{bind, &ast.ExprStmt{X: call(rt("Go"), site, body)}}}}
}
