#!/usr/bin/env python3
"""Regenerates MANIFEST.json from the tables below (single source of truth)."""
import json, os
V = os.path.dirname(os.path.dirname(os.path.abspath(__file__)))

CLAIMED = {
 "C01": ("srv", "4 C01", "seeded search over inbound message sequences, handler completion orders and goroutine interleavings; history oracle: bipartite match of every outbound record to one inbound message (exactly-once, grouping, order, array shape, reply-after-handlers) at the final quiescent point"),
 "C03": ("srv", "4 C03", "seeded search over interleavings of reader/dispatcher/handlers with held handlers; happens-before oracle on handler exit/enter sequence numbers plus a progress oracle at every quiescent point"),
 "C04": ("cli", "4 C04", "seeded search over concurrent Call/CallResult/Batch/Notify tasks against a scripted raw peer that answers in any order, grouped into arrays, duplicated, with unknown ids, single-defect members and server notifications/callbacks; unique-payload attribution oracle, batch order, id reuse, no panic"),
 "C05": ("cli", "4 C05", "seeded search over reply vs context cancel vs fake-clock deadline vs Close (also concurrent) vs peer EOF vs Recv/Send failure at scripted operation indexes vs malformed record; must/may outcome oracle, exactly-once hooks, Close-after-callbacks, operations on a stopped client, goroutine census; thorough tier adds a systematic sweep: one run per channel-operation index and fault kind of every 6th workload"),
 "C11": ("stream", "4 C11", "a pipelined sender task and a receiver task over a simulated byte stream whose read chunking the simulator chooses (1-byte reads, random cuts, a single cut at a drawn position, everything at once, last chunk together with io.EOF), record sizes empty to > 1 MiB followed by small ones; received sequence must equal the sent sequence, then io.EOF twice; split-byte refusal"),
 "C12": ("stream", "4 C12", "fault injection on the byte stream (truncation at a drawn byte offset, byte flip/insert/delete, adversarial header blocks, random streams) under drawn fragmentation; every Recv is compared with three-valued reference decoders written from the package documentation; a worker process that dies (out of memory) is reported with its seed"),
 "C18": ("http", "4 C18", "1-4 concurrent HTTP caller tasks on one real Bridge (internal Client, Server and channel.Direct all instrumented) with colliding and exotic ids, mixed calls/notifications/single-defect members, non-POST, wrong content type/charset and non-JSON bodies, gated handlers; per-exchange status/body oracle against the request's own members, handler exactly-once count"),
 "C19": ("http", "4 C19", "(a) concurrent GETs on a real Getter with URLs over the property's alphabet, judged against the parser run as a function and against an independent reference of the documented typing rules (status mapping, body always JSON, accepted parameters marshalable, correctly typed and echoed); (b) a real Client over a real jhttp.Channel whose HTTPClient is an in-process round trip to a real Bridge, with Close at a drawn step, injected Do errors and non-200 statuses; equality with direct results, body open/close accounting, goroutine census"),
 "C20": ("loop", "4 C20", "real server.Loop over an in-memory Accepter or the real NetAccepter over an in-memory listener; connect / handler release / accepter failure / context cancel events in drawn order, failing Assigners; exactly-once Finish, Finish-after-server-exit, argument and status checks, Loop return order and value, connection closed after Assigner failure, goroutine census"),
 "C06": ("srv", "4 C06", "seeded search with Concurrency 1..4; online running-handler counter invariant at every handler entry and LogRequest, work-conservation oracle at quiescent points, proven cancel-while-waiting sub-scenario"),
 "C08": ("srv", "4 C08", "seeded search over stop causes (Stop, also from handlers and twice; early peer close; Recv failure with/without data, data+EOF; Send failure) placed at every channel-operation index, both Close-unblocks-Recv settings, traffic before and after the stop, then restart on a fresh channel; must/may status oracle, handler/ctx obligations, goroutine census, servers_active delta, restart probe (at a quiescent point or immediately after WaitStatus); thorough tier adds a systematic sweep: one run per channel-operation index and fault kind of every 6th workload"),
 "C09": ("srv", "4 C09", "seeded search over Notify/Callback from handlers and outside tasks with cancellable and fake-clock-deadline contexts, scripted peer answering in any order / late / duplicated / for unknown ids / never, colliding id spaces, Stop; exactly-once return, unique payload attribution and no-stray-output oracles"),
 "C10": ("srv", "4 C10", "seeded search over mixed workloads (calls, batches, pushes, callbacks, cancellations, stop, Recv failure) through an instrumented channel whose Send/Recv/Close can be preempted half-way; overlap counters, Close count and record-shape checks"),
 "C07": ("srv", "4 C07", "seeded search with ids from a pool of 3 and CancelRequest at arbitrary points; must/may oracle over arrival, handler and reply-send sequence numbers"),
}
PENDING = {
}
NA = {
 "C02": "pure function of one inbound record's bytes (the only nondeterminism, Go map order, is absorbed by the property itself): no schedule, clock, fault or crash point for a simulator to search; deterministic simulation does not apply",
 "C13": "pure function (message encoder / ParseRequests) of a message value: nothing concurrent, timed or faulty; the one wire-observable clause (whole JSON-RPC messages per Send) is checked under C10",
 "C14": "pure function (error classification and mapping) of an error value; outcome independent of any interleaving or fault",
 "C15": "pure function (reflection adapter handler.New/Check) of (signature, options, params bytes); no schedule, time or fault involved",
 "C16": "pure decoding functions (Positional, Args, Obj) of their input; no schedule, time or fault involved",
 "C17": "pure function (method name -> handler) of the name and one configuration bit; no schedule, time or fault involved",
}
FAM_NOTE = {
 "http": "Trusted: the AST instrumenter, the scheduler, the in-process HTTP round trip (httptest.ResponseRecorder; no sockets, no net/http server or transport code runs), the gated handlers and the oracle. The value-typing reference abstains on numeric spellings the documentation does not settle (exponents, hex, bare fractions). Sampling: a clean run is evidence, not proof.",
 "loop": "Trusted: the AST instrumenter, the scheduler, the in-memory Accepter / net.Listener / net.Conn, the scripted clients (which close their end when the server goes away), the recording services and the oracle. Sampling: a clean run is evidence, not proof.",
 "stream": "Trusted: the simulated byte stream, the reference encoders/decoders (written from the package documentation; they abstain where it is silent), the scheduler. Workers run under ulimit -v 6 GiB so that an absurd allocation kills the worker and is reported. Sampling: a clean run is evidence, not proof.",
 "cli": "Trusted: the AST instrumenter, the token-passing scheduler over testing/synctest, the simulated channel, the scripted peer and the oracle. Assumes the peer closes its end after seeing EOF (as the property does) and data-race freedom of the library. Sampling: a clean run is evidence, not proof.",
 "srv": "Trusted: the AST instrumenter (yields before every acquire-type synchronisation operation), the token-passing scheduler over testing/synctest, the simulated channel and scripted peer, the reference oracle. Assumes data-race freedom of the library (context switches only at synchronisation operations). Sampling: a clean run is evidence, not proof.",
}
def main():
    checks = []
    for pid, (fam, ref, tech) in sorted(CLAIMED.items()):
        checks.append({
            "property_id": pid,
            "quick_cmd": "bin/vcheck %s --tier quick" % pid,
            "thorough_cmd": "bin/vcheck %s --tier thorough" % pid,
            "evidence_file": "/verif/evidence/%s.json" % pid,
            "replay_cmd_template": "bin/vcheck replay {path}",
            "engine": "dst",
            "level_claimed": {"category": "exploration",
                "text": "Deterministic simulation: the real library code (instrumented scratch copy of /repo's working tree) runs in one process under a seeded scheduler that decides every goroutine interleaving, handler duration and peer behaviour; " + tech + ". Hundreds of thousands of distinct schedules per quick run, millions per thorough run; every failure is minimised and replayable from its choice tapes.",
                "design_ref": "DESIGN.md " + ref},
            "level_note": FAM_NOTE[fam],
            "technique": "deterministic simulation with fault injection (seeded schedule/fault search, token-passing scheduler over testing/synctest, history oracles)",
        })
    na = [{"property_id": k, "reason": v} for k, v in sorted({**PENDING, **NA}.items())]
    m = {
        "version": 1,
        "setup_cmd": "bin/vcheck setup",
        "hooks": {
            "guard": "none (no source hooks: yield points are inserted by tools/instrument into a scratch copy of /repo's working tree at check time)",
            "enable": "bin/vcheck build  (copies /repo's working tree to a scratch dir, runs the go/ast instrumenter, adds the verifrt runtime and harness, builds with go1.26.8)",
            "baseline_off_cmd": "cd /repo && go test -vet=off -count=1 ./...",
            "source_commits": [],
            "add_only": True,
        },
        "engines": [{"name": "dst", "path": "bin/vcheck", "serves_properties": sorted(CLAIMED), "kind_free_text": "deterministic simulation: AST-instrumented library + token-passing scheduler in a testing/synctest bubble, seeded PRNG / choice tapes, simulated channel/peer/clock, history oracles, tape minimiser"}],
        "checks": checks,
        "not_applicable": na,
        "notes": "All checks honour VERIF_SEED and VERIF_TIER; VERIF_BUDGET_S overrides the search budget (quick 20 s, thorough 600 s), VERIF_WORKERS the number of worker processes (default: all cores). Exit 2 = machinery failure (never a violation). Fix commits in /repo: see known_findings.json.",
    }
    json.dump(m, open(os.path.join(V, "MANIFEST.json"), "w"), indent=1)
if __name__ == "__main__":
    main()
