#!/bin/bash
# usage: [ONLY=regex] regress_quiet.sh [budget]  -- no check may raise an alarm on the stored behaviour-preserving / permitted-variation
# patches (seeded/refactorings/*, and the changes of the false-alarm red team in seeded/falsealarm/* except those listed in NOT-PERMITTED)
B=${1:-6}; V=$(cd "$(dirname "$0")/.." && pwd); fail=0
for d in $V/seeded/refactorings/*/patch.diff $V/seeded/falsealarm/*/*.diff; do
  n=$(basename $(dirname $d))/$(basename $d .diff); n=${n%/patch}
  grep -q "^$n " $V/seeded/falsealarm/NOT-PERMITTED && continue
  [ -n "${ONLY:-}" ] && ! echo "$n" | grep -qE "$ONLY" && continue
  W=/tmp/wt-quiet-$$; git -C /repo worktree add -q --detach $W HEAD; (cd $W && git apply $d) || { echo "$n: patch does not apply"; git -C /repo worktree remove --force $W; continue; }
  printf "%-42s" $n
  for c in C01 C03 C04 C05 C06 C07 C08 C09 C10 C11 C12 C18 C19 C20; do
    out=$(VERIF_REPO=$W VERIF_BUDGET_S=$B $V/bin/vcheck $c 2>&1); rc=$?
    if [ $rc = 0 ]; then printf " ."; else printf " %s:%s" $c $rc; fail=1; echo "$n $c: $(echo "$out" | grep -E '^(violation class|message|vcheck)' | head -2 | cut -c1-300)" >> /tmp/quiet-detail.txt; fi
  done; echo
  git -C /repo worktree remove --force $W
done
exit $fail
