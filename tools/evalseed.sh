#!/bin/bash
# usage: evalseed.sh <srcdir> <name> <propID> [more check IDs...]
# Verifies a seeded change delivered in <srcdir> (patch.diff, zz_seeded_demo_test.go somewhere, NOTES.md),
# stores it under /verif/seeded/<name>/ and runs the checks against it. Nothing is applied to /repo.
set -u
SRC=$1; NAME=$2; PROP=$3; shift 2
DST=/verif/seeded/$NAME
mkdir -p $DST
cp $SRC/patch.diff $DST/patch.diff
cp $SRC/NOTES.md $DST/NOTES.md 2>/dev/null
DEMO=$(cd $SRC && git ls-files --others --exclude-standard | grep 'zz_seeded_demo_test.go' | head -1)
[ -z "$DEMO" ] && DEMO=$(cd $SRC && find . -name zz_seeded_demo_test.go | head -1 | sed 's|^\./||')
DEMODIR=$(dirname "$DEMO")
cp $SRC/$DEMO $DST/zz_seeded_demo_test.go
W=/tmp/wt-eval-$$
git -C /repo worktree add -q --detach $W HEAD
trap "git -C /repo worktree remove --force $W" EXIT
cd $W
R_BUILD=fail; R_SUITE=fail; R_DEMO_WITH=unknown; R_DEMO_WITHOUT=unknown
# demo without the change
cp $DST/zz_seeded_demo_test.go $W/$DEMODIR/
if (cd $W/$DEMODIR && go test -vet=off -count=1 -run 'TestSeededDemo' . >/tmp/eval-demo0.log 2>&1); then R_DEMO_WITHOUT=pass; else R_DEMO_WITHOUT=FAIL; fi
rm $W/$DEMODIR/zz_seeded_demo_test.go
if git apply $DST/patch.diff 2>/tmp/eval-apply.log; then
  if go build ./... 2>/tmp/eval-build.log; then R_BUILD=ok; fi
  ok=1; for i in 1 2; do go test -vet=off -count=1 ./... >/tmp/eval-suite.log 2>&1 || ok=0; done
  [ $ok = 1 ] && R_SUITE=pass
  cp $DST/zz_seeded_demo_test.go $W/$DEMODIR/
  if (cd $W/$DEMODIR && go test -vet=off -count=1 -run 'TestSeededDemo' . >/tmp/eval-demo1.log 2>&1); then R_DEMO_WITH=PASS; else R_DEMO_WITH=fail; fi
  rm $W/$DEMODIR/zz_seeded_demo_test.go
else
  echo "patch does not apply"; cat /tmp/eval-apply.log
fi
echo "build=$R_BUILD suite=$R_SUITE demo_with_change=$R_DEMO_WITH demo_without_change=$R_DEMO_WITHOUT"
RESULTS=""
for p in "$@"; do
  out=$(VERIF_REPO=$W VERIF_BUDGET_S=${BUDGET:-20} /verif/bin/vcheck $p 2>&1); rc=$?
  cls=$(echo "$out" | grep -E "^violation class:" | head -1 | sed 's/violation class: //')
  runs=$(echo "$out" | grep -oE "^C[0-9]+ quick: [0-9]+ runs" | grep -oE "[0-9]+ runs")
  echo "  check $p: exit=$rc ${cls:+class=$cls} ($runs)"
  echo "$out" | grep -E "^message:" | head -1 | cut -c1-400
  RESULTS="$RESULTS{\"check\":\"$p\",\"exit\":$rc,\"class\":\"$cls\",\"runs_before_detection\":\"$runs\"},"
done
python3 - <<PY
import json
meta={"name":"$NAME","breaks_property":"$PROP","patch":"patch.diff","demonstration":"zz_seeded_demo_test.go (package dir: $DEMODIR)",
 "verified":{"builds":"$R_BUILD","existing_suite_with_change":"$R_SUITE","demo_with_change":"$R_DEMO_WITH","demo_without_change":"$R_DEMO_WITHOUT"},
 "what_was_run":"fresh worktree of /repo HEAD; git apply patch.diff; go build ./...; go test -vet=off -count=1 ./... (twice); demo test with and without the change; VERIF_REPO=<worktree> bin/vcheck <id> (quick, ${BUDGET:-20} s)",
 "checks":json.loads('[' + '''$RESULTS'''.rstrip(',') + ']')}
try:
    meta["needs_to_manifest"]=open("$DST/NOTES.md").read()[:1500]
except Exception: pass
json.dump(meta,open("$DST/meta.json","w"),indent=1)
PY
rm -f /verif/replays/*.json
