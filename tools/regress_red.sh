#!/bin/bash
# usage: regress_red.sh [budget]  -- every stored white-box red-team change (seeded/redteam/*/*.diff) must be
# reported by a check of its family; seeded/redteam/EXCLUDED lists the diffs that are not property-breaking
# (the library's own suite fails with them, or the agent withdrew them).
B=${1:-15}; V=$(cd "$(dirname "$0")/.." && pwd); fail=0
for f in $V/seeded/redteam/*/*.diff; do
  n=$(basename $f .diff); d=$(basename $(dirname $f))
  grep -qx "$d/$n" $V/seeded/redteam/EXCLUDED 2>/dev/null && continue
  grep -q "^$d/$n " $V/seeded/redteam/KNOWN-MISSES 2>/dev/null && continue
  case $d in
    RT1|RU1|RV1|RW1) fam="C07 C01 C03 C06 C09";;
    RT2|RU2|RV2|RW2) fam="C08 C09 C10";;
    RT3|RU3|RV3|RW3) fam="C05 C04";;
    *) case $n in c11_*) fam="C11 C12";; c12_*) fam="C12 C11";; c18_*) fam="C18 C19";; c19_*) fam="C19";; c20_*) fam="C20";; *) fam="C11 C12 C18 C19 C20";; esac;;
  esac
  W=/tmp/wt-red-$$; git -C /repo worktree add -q --detach $W HEAD; (cd $W && git apply $f) || { echo "$d/$n: patch does not apply"; git -C /repo worktree remove --force $W; fail=1; continue; }
  hit=""
  BB=$B; grep -q "^$d/$n " $V/seeded/redteam/NARROW 2>/dev/null && BB=$((B*8))   # narrow-margin probes need about 3e5 runs
  for c in $fam; do
    out=$(VERIF_REPO=$W VERIF_BUDGET_S=$BB $V/bin/vcheck $c 2>&1); rc=$?
    if [ $rc = 1 ]; then hit="$c ($(echo "$out" | grep -E '^violation class' | head -1 | cut -c18-70))"; break; fi
  done
  git -C /repo worktree remove --force $W
  if [ -n "$hit" ]; then printf "%-60s caught by %s\n" $d/$n "$hit"; else printf "%-60s NOT CAUGHT by %s\n" $d/$n "$fam"; fail=1; fi
done
rm -f $V/replays/*.json
exit $fail
