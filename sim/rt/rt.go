// Package verifrt is the deterministic-simulation runtime that the instrumented
// scratch copy of creachadair/jrpc2 and the harness are linked against.
//
// One simulated run lives in one testing/synctest bubble.  The bubble's root
// goroutine is the scheduler: it owns a single run token.  Every other
// goroutine (library goroutines created through Go, harness tasks created
// through Spawn) runs only while it holds the token, and hands it back by
// parking (Yield, BeforeLock, Block, Woke) by blocking inside a native
// primitive (channel, WaitGroup, semaphore: the operations the instrumenter
// brackets with Yield/Woke) or by finishing.  The scheduler waits for
// quiescence of the bubble (synctest.Wait), computes the set of enabled parked
// goroutines and picks one from the PRNG or from a recorded tape.
package verifrt

import (
	"context"
	"fmt"
	"hash/fnv"
	"os"
	"runtime"
	"runtime/debug"
	"sort"
	"strconv"
	"strings"
	"sync"
	"sync/atomic"
	"testing/synctest"
	"time"
	"unsafe"
)

const (
	gParked  int32 = iota // waiting for the token (in Sim.parked)
	gRunning              // holds the token
	gNative               // blocked inside a native primitive, does not hold the token
	gDone
)

// A G is one simulated goroutine.
type G struct {
	sim    *Sim
	Name   string
	Site   string // where it last parked / was created
	wake   chan struct{}
	try    func() bool // enabled predicate while parked (nil: always enabled)
	state  atomic.Int32
	nchild int
	prio   int64 // for the priority strategy
	Lib    bool  // created by instrumented library code (as opposed to a harness task)
	steps  int
	gid    int64 // real goroutine id (paranoid mode)
	// polling detection (see Run)
	spinTurns int
	spinSites []string
	spinning  bool
}

func (g *G) State() string {
	switch g.state.Load() {
	case gParked:
		return "parked"
	case gRunning:
		return "running"
	case gNative:
		return "native-blocked"
	}
	return "done"
}

// Outcome of Sim.Run.
type Outcome int

const (
	Quiescent Outcome = iota // no goroutine is enabled
	StepCap                  // the step budget of the run is exhausted
	Panicked                 // a simulated goroutine panicked
)

func (o Outcome) String() string { return [...]string{"quiescent", "step-cap", "panic"}[o] }

// Ev is one observable event, stamped with the global scheduling step.
type Ev struct {
	Step int
	G    string
	Kind string
	Tag  string
	A, B int
	S    string
}

func (e Ev) String() string {
	var sb strings.Builder
	fmt.Fprintf(&sb, "%5d %-14s %-14s", e.Step, e.G, e.Kind)
	if e.Tag != "" {
		sb.WriteString(" " + e.Tag)
	}
	if e.A != 0 || e.B != 0 {
		fmt.Fprintf(&sb, " a=%d b=%d", e.A, e.B)
	}
	if e.S != "" {
		s := e.S
		if len(s) > 200 {
			s = s[:200] + "..."
		}
		sb.WriteString(" " + s)
	}
	return sb.String()
}

// Sim is one simulated run.
type Sim struct {
	mu     sync.Mutex // protects parked/all against goroutines arriving from a Woke window
	all    []*G
	parked []*G
	cur    *G // token holder (nil while the scheduler decides)
	last   *G // previous token holder
	dead   atomic.Bool

	Gen   *Source // workload / configuration choices
	Sched *Source // scheduling and fault choices

	Step    int
	MaxStep int
	Events  []Ev

	PanicMsg   string
	PanicStack string
	PanicG     string

	strat     Strategy
	stratP    float64
	prioSeq   int64
	changeAt  map[int]bool
	schedHash uint64
	// statistics
	MaxEnabled      int
	Switches        int
	SwitchPairs     map[string]struct{}
	Trace           []string // first scheduling decisions, for samples
	TraceAll        bool
	AutoAdvances    int // times the clock was moved to a library timer
	SpinQuiescences int // times a lone polling goroutine was taken for blocked
	tickers         []*ticker
	rootChildren    int
	sameTurns       int
	loneSpin        int
	Spinners        int // goroutines ever taken for pollers
	sameGTurns      int
	timerFires      int
	lastSite        string
	onces           map[*sync.Once]*onceState
	timerOf         map[*time.Timer]time.Time
	recent          [16]string // ring of the last scheduling decisions
	SimTime         time.Duration
	nroot           int
	nativeAny       bool
	afSeq           int
	conds           map[*sync.Cond][]*condWaiter
	timers          []time.Time // deadlines of timers created by instrumented library code
}

var cur atomic.Pointer[Sim]

// Paranoid makes every runtime entry point verify, with real goroutine ids,
// that its caller is the token holder (the single-runner invariant that the
// handle-passing scheme otherwise takes on trust). Used by the self-test.
var Paranoid bool

func goid() int64 {
	var buf [64]byte
	n := runtime.Stack(buf[:], false)
	// "goroutine 123 [running]:"
	f := strings.Fields(string(buf[:n]))
	if len(f) < 2 {
		return -1
	}
	id, _ := strconv.ParseInt(f[1], 10, 64)
	return id
}

func (s *Sim) checkRunner(where string) {
	if !Paranoid {
		return
	}
	g := s.cur
	if g == nil {
		return
	}
	if id := goid(); g.gid != 0 && id != g.gid {
		panic(fmt.Sprintf("HARNESS: single-runner invariant broken in %s: goroutine %d is running while %s (goroutine %d) holds the token", where, id, g.Name, g.gid))
	}
}

// Cur returns the running simulation or nil.
func Cur() *Sim { return cur.Load() }

type Strategy int

const (
	Uniform Strategy = iota
	Burst
	Priority
)

func (s Strategy) String() string { return [...]string{"uniform", "burst", "priority"}[s] }

// New creates a simulation. It must be called inside the bubble.
func New(gen, sched *Source, maxStep int) *Sim {
	s := &Sim{Gen: gen, Sched: sched, MaxStep: maxStep, SwitchPairs: map[string]struct{}{}, conds: map[*sync.Cond][]*condWaiter{}}
	s.schedHash = 14695981039346656037
	cur.Store(s)
	return s
}

// SetStrategy configures how scheduling choices are drawn in random mode.
func (s *Sim) SetStrategy(st Strategy, p float64, changePoints []int) {
	s.strat, s.stratP = st, p
	s.changeAt = map[int]bool{}
	for _, c := range changePoints {
		s.changeAt[c] = true
	}
}

func (s *Sim) newG(name, site string, lib bool) *G {
	g := &G{sim: s, Name: name, Site: site, wake: make(chan struct{}), Lib: lib}
	g.state.Store(gParked)
	if s.Sched.rng != nil {
		g.prio = int64(s.Sched.rng.Uint64() >> 2)
	}
	s.mu.Lock()
	s.all = append(s.all, g)
	s.parked = append(s.parked, g)
	s.mu.Unlock()
	return g
}

func (s *Sim) start(g *G, fn func()) {
	go func() {
		<-g.wake
		if s.dead.Load() {
			return
		}
		if Paranoid {
			g.gid = goid()
		}
		defer func() {
			if r := recover(); r != nil {
				if s.PanicMsg == "" {
					s.PanicMsg = fmt.Sprint(r)
					s.PanicStack = string(debug.Stack())
					s.PanicG = g.Name
				}
			}
			g.state.Store(gDone)
		}()
		fn()
	}()
}

// Spawn creates a top-level harness task. It may be called by the scheduler
// goroutine (between Run calls) or by the token holder.
func (s *Sim) Spawn(name string, fn func()) *G {
	g := s.newG(name, "spawn", false)
	s.start(g, fn)
	return g
}

// Go replaces the go statement in instrumented code.
func Go(site string, fn func()) {
	s := cur.Load()
	if s == nil || s.dead.Load() {
		go fn()
		return
	}
	if s.cur == nil {
		// library code run directly by the scheduler goroutine (a constructor
		// called by a scenario between Run calls) starts a goroutine: it becomes a
		// simulated goroutine all the same
		s.rootChildren++
		g := s.newG("root."+strconv.Itoa(s.rootChildren), site, true)
		s.start(g, fn)
		return
	}
	p := s.cur
	s.checkRunner("Go@" + site)
	name := p.Name + "." + strconv.Itoa(p.nchild)
	p.nchild++
	g := s.newG(name, site, true)
	s.start(g, fn)
}

func (s *Sim) park(g *G, site string, try func() bool) {
	g.Site = site
	g.try = try
	s.mu.Lock()
	s.parked = append(s.parked, g)
	g.state.Store(gParked)
	s.mu.Unlock()
	<-g.wake
}

// Yield is a scheduling point of the token holder. It returns the caller's
// handle, which must be passed to Woke after a natively blocking operation.
func Yield(site string) *G {
	s := cur.Load()
	if s == nil || s.dead.Load() {
		return nil
	}
	g := s.cur
	if g == nil {
		return nil
	}
	s.checkRunner("Yield@" + site)
	s.park(g, site, nil)
	return g
}

// Woke must be the first call after an operation that may have blocked
// natively. If the goroutine lost the token while blocked it parks here.
func Woke(g *G, site string) {
	if g == nil {
		return
	}
	s := g.sim
	if s.dead.Load() {
		// The run is over; never touch shared state again.
		select {}
	}
	if g.state.Load() == gRunning {
		return // never lost the token
	}
	s.park(g, site, nil)
}

// BeforeLock parks the token holder until try() succeeds at a quiescent point.
func BeforeLock(site string, try func() bool) {
	s := cur.Load()
	if s == nil || s.dead.Load() {
		return
	}
	g := s.cur
	if g == nil {
		return
	}
	s.checkRunner("BeforeLock/Block@" + site)
	s.park(g, site, try)
}

// Block parks the token holder until pred() holds at a quiescent point. It is
// the blocking primitive of the simulated seams.
func Block(site string, pred func() bool) {
	BeforeLock(site, pred)
}

// Sleep replaces time.Sleep in instrumented code: the deadline is registered so
// that the scheduler advances the fake clock to it when nothing else can run.
func Sleep(d time.Duration) {
	register(d)
	time.Sleep(d)
}

// After replaces time.After in instrumented code.
func After(d time.Duration) <-chan time.Time {
	register(d)
	return time.After(d)
}

// ContextWithTimeout replaces context.WithTimeout in instrumented code.
func ContextWithTimeout(ctx context.Context, d time.Duration) (context.Context, context.CancelFunc) {
	register(d)
	return context.WithTimeout(ctx, d)
}

// ContextWithDeadline replaces context.WithDeadline in instrumented code.
func ContextWithDeadline(ctx context.Context, t time.Time) (context.Context, context.CancelFunc) {
	register(time.Until(t))
	return context.WithDeadline(ctx, t)
}

// CondWait replaces (*sync.Cond).Wait in instrumented code: the caller is queued
// on the simulator's side, releases the Cond's lock and parks until it has been
// signalled and the lock is free; then it takes the lock again.
func CondWait(site string, c *sync.Cond) {
	s := cur.Load()
	if s == nil || s.dead.Load() || s.cur == nil {
		c.Wait()
		return
	}
	g := s.cur
	w := &condWaiter{g: g}
	s.conds[c] = append(s.conds[c], w)
	c.L.Unlock()
	tl, _ := c.L.(interface{ TryLock() bool })
	s.park(g, site, func() bool {
		if !w.signalled {
			return false
		}
		if tl == nil {
			return true
		}
		if tl.TryLock() {
			c.L.Unlock()
			return true
		}
		return false
	})
	c.L.Lock()
}

// CondSignal replaces (*sync.Cond).Signal.
func CondSignal(c *sync.Cond) {
	s := cur.Load()
	if s == nil || s.dead.Load() || s.cur == nil {
		c.Signal()
		return
	}
	if q := s.conds[c]; len(q) > 0 {
		q[0].signalled = true
		s.conds[c] = q[1:]
	}
}

// CondBroadcast replaces (*sync.Cond).Broadcast.
func CondBroadcast(c *sync.Cond) {
	s := cur.Load()
	if s == nil || s.dead.Load() || s.cur == nil {
		c.Broadcast()
		return
	}
	for _, w := range s.conds[c] {
		w.signalled = true
	}
	delete(s.conds, c)
}

type condWaiter struct {
	g         *G
	signalled bool
}

// adopt turns the calling goroutine, started by the Go runtime for an
// AfterFunc callback, into a simulated goroutine: it parks until scheduled.
// The name was fixed when the callback was registered (by a token holder).
func (s *Sim) adopt(name, site string, fn func()) {
	if s.dead.Load() {
		select {}
	}
	g := s.newG(name, site, true)
	<-g.wake
	if s.dead.Load() {
		select {}
	}
	if Paranoid {
		g.gid = goid()
	}
	defer func() {
		if r := recover(); r != nil {
			if s.PanicMsg == "" {
				s.PanicMsg = fmt.Sprint(r)
				s.PanicStack = string(debug.Stack())
				s.PanicG = g.Name
			}
		}
		g.state.Store(gDone)
	}()
	fn()
}

func (s *Sim) afName() string {
	s.afSeq++
	owner := "root"
	if s.cur != nil {
		owner = s.cur.Name
	}
	return owner + ".af" + strconv.Itoa(s.afSeq)
}

// ContextAfterFunc replaces context.AfterFunc in instrumented code.
func ContextAfterFunc(site string, ctx context.Context, f func()) func() bool {
	s := cur.Load()
	if s == nil || s.dead.Load() {
		return context.AfterFunc(ctx, f)
	}
	name := s.afName()
	return context.AfterFunc(ctx, func() { s.adopt(name, site, f) })
}

// TimeAfterFunc replaces time.AfterFunc in instrumented code.
func TimeAfterFunc(site string, d time.Duration, f func()) *time.Timer {
	s := cur.Load()
	if s == nil || s.dead.Load() {
		return time.AfterFunc(d, f)
	}
	name := s.afName()
	t := time.AfterFunc(d, func() { s.adopt(name, site, f) })
	registerFor(t, d)
	return t
}

func register(d time.Duration) {
	s := cur.Load()
	if s == nil || s.dead.Load() {
		return
	}
	if d < 0 {
		d = 0
	}
	s.mu.Lock()
	s.timers = append(s.timers, time.Now().Add(d))
	s.mu.Unlock()
}

// SelectOrder draws the order in which the cases of a select are tried.
func SelectOrder(site string, n int) []int {
	s := cur.Load()
	if s == nil || s.dead.Load() || s.cur == nil || n < 2 {
		p := make([]int, n)
		for i := range p {
			p[i] = i
		}
		return p
	}
	return s.Sched.Perm("sel", n)
}

// Self returns the token holder's name ("root" for the scheduler).
func (s *Sim) Self() string {
	if g := s.cur; g != nil {
		return g.Name
	}
	return "root"
}

// Event appends to the history. Token holder or scheduler only.
func (s *Sim) Event(kind, tag string, a, b int, str string) {
	s.Events = append(s.Events, Ev{Step: s.Step, G: s.Self(), Kind: kind, Tag: tag, A: a, B: b, S: str})
}

func (s *Sim) mix(str string) {
	h := s.schedHash
	for i := 0; i < len(str); i++ {
		h ^= uint64(str[i])
		h *= 1099511628211
	}
	h ^= 0xff
	h *= 1099511628211
	s.schedHash = h
}

// SchedHash identifies the schedule (sequence of (goroutine, site) decisions).
func (s *Sim) SchedHash() uint64 { return s.schedHash }

// Run schedules until no goroutine is enabled, the step cap is hit or a
// goroutine panics. Scheduler goroutine only.
func (s *Sim) Run() Outcome {
	// Library timers are served, however far away (a one-minute grace period
	// must expire like a one-millisecond one), but at most AutoAdvanceMax times
	// per call: a library that keeps re-arming a timer (a periodic log line, a
	// poll loop) must not keep the workload from ever seeing a quiescent point.
	// Then Run reports quiescence with the timers still pending, and the next
	// call serves them again.
	advN := 0
	for {
		synctest.Wait()
		if s.PanicMsg != "" {
			s.cur = nil
			return Panicked
		}
		if c := s.cur; c != nil {
			if c.state.Load() == gRunning {
				c.state.Store(gNative)
				s.nativeAny = true
			}
			s.last = c
			s.cur = nil
		}
		en := s.enabled()
		if len(en) == 0 {
			// nothing can run: if the library itself is waiting on a timer, move
			// the fake clock to the earliest one and look again
			if d, ok := s.nextTimer(); ok && advN < AutoAdvanceMax && (s.AutoAdvances < AutoAdvanceRunMax || advN < AutoAdvanceReserve) {
				advN++
				// a ticker that keeps the run from resting is served with growing
				// strides (a process that was not scheduled for a while misses ticks
				// the same way): code that polls for a deadline minutes away is reached
				// (the same for a loop that re-arms a Sleep or a time.After: after
				// eight advances in one call the strides grow, whatever kind of timer
				// is next - timers that fall inside a stride fire late, in order)
				if advN > 8 {
					k := advN - 8
					if k > 12 {
						k = 12
					}
					stride := d
					if p := s.tickerPeriod(d); p > 0 {
						stride = p
					}
					if stride < time.Millisecond {
						stride = time.Millisecond
					}
					d += stride * time.Duration(int64(1)<<uint(k))
				}
				time.Sleep(d)
				s.SimTime += d
				s.AutoAdvances++
				continue
			}
			return Quiescent
		}
		if s.Step >= s.MaxStep {
			if spinDebug {
				for _, g := range en {
					fmt.Fprintf(dbgOut(), "STEPCAP enabled %s@%s spin=%d\n", g.Name, g.Site, g.spinTurns)
				}
			}
			return StepCap
		}
		// A pending timer of the library may also expire while goroutines are
		// runnable (a timer callback that starts in the middle of somebody's Send):
		// now and then the scheduler lets the earliest one fire first. Drawn from
		// the schedule tape, and only while a library timer is pending, so runs
		// without library timers are not perturbed.
		if d, ok := s.nextTimer(); ok && s.timerFires < TimerFiresMax && s.Sched.Chance("firetimer", 0.04) {
			s.timerFires++
			time.Sleep(d)
			s.SimTime += d
			s.AutoAdvances++
			continue
		}
		if len(en) > s.MaxEnabled {
			s.MaxEnabled = len(en)
		}
		if s.Spinners > 0 {
			// pollers wait while anybody else can run (see below)
			var rest []*G
			for _, o := range en {
				if !o.spinning {
					rest = append(rest, o)
				}
			}
			if len(rest) > 0 {
				en = rest
			}
		}
		g := en[s.choose(en)]
		// Weak fairness: a goroutine that comes back to the same scheduling point
		// again and again while others could run (a spin loop with runtime.Gosched,
		// a poll) gives way after FairAfter turns. Real schedulers are fair in this
		// sense; an exhausted or minimised tape ("no context switch") is not.
		if len(en) > 1 && g == s.last && g.Site == s.lastSite {
			s.sameTurns++
			if s.sameTurns > FairAfter {
				s.sameTurns = 0
				for _, o := range en {
					if o != g {
						g = o
						break
					}
				}
			}
		} else {
			s.sameTurns = 0
		}
		// The same for a loop through several places (an atomic load, then a
		// select with a default): after FairAfterAny turns in a row of one
		// goroutine while others could run, the one that has run least goes next.
		// Any context switch is a legal schedule, so this cannot create an alarm;
		// priority schedules and minimised tapes would otherwise starve the
		// goroutines a spinning one is waiting for.
		if len(en) > 1 && g == s.last {
			s.sameGTurns++
			if s.sameGTurns > FairAfterAny {
				s.sameGTurns = 0
				var best *G
				for _, o := range en {
					if o != g && (best == nil || o.steps < best.steps) {
						best = o
					}
				}
				g = best
			}
		} else {
			s.sameGTurns = 0
		}
		s.lastSite = g.Site
		// A goroutine that polls (an atomic load, a select with a default, a lock
		// taken and given back: more than SpinDetectAfter turns in a row through at
		// most four such places) waits for somebody else. While others can run they
		// go first (what runtime.Gosched in such a loop asks for; any order is a
		// legal schedule), and when only pollers can run they are as good as
		// blocked: a Close that spins until the requests in flight have gone, while
		// the workload holds their handlers until the next quiescent point, would
		// otherwise never let that point come. After SpinQuiescentAfter turns of
		// pollers alone Run reports quiescence; they keep their turn for the next
		// call. A poller is an ordinary goroutine again at its first step elsewhere.
		if pollingSite(g.Site) && (g.spinHas(g.Site) || len(g.spinSites) < 4) {
			if !g.spinHas(g.Site) {
				g.spinSites = append(g.spinSites, g.Site)
			}
			g.spinTurns++
			if g.spinTurns > SpinDetectAfter && !g.spinning {
				g.spinning = true
				s.Spinners++
				if spinDebug {
					fmt.Fprintf(dbgOut(), "SPIN-DETECT %s@%s\n", g.Name, g.Site)
				}
			}
		} else {
			g.spinTurns, g.spinSites, g.spinning = 0, g.spinSites[:0], false
			if pollingSite(g.Site) {
				g.spinSites = append(g.spinSites, g.Site)
				g.spinTurns = 1
			}
		}
		if g.spinning {
			s.loneSpin++
			if s.loneSpin > SpinQuiescentAfter {
				s.loneSpin = 0
				s.SpinQuiescences++
				if spinDebug {
					fmt.Fprintf(dbgOut(), "SPIN-QUIESCENT %s@%s\n", g.Name, g.Site)
				}
				return Quiescent
			}
		} else {
			s.loneSpin = 0
		}
		// remove from parked
		for i, p := range s.parked {
			if p == g {
				s.parked = append(s.parked[:i], s.parked[i+1:]...)
				break
			}
		}
		s.Step++
		g.steps++
		if s.last != nil && s.last != g {
			s.Switches++
			if len(s.SwitchPairs) < 4096 {
				s.SwitchPairs[s.last.Site+">"+g.Site] = struct{}{}
			}
		}
		s.mix(g.Name)
		s.mix(g.Site)
		if s.TraceAll || len(s.Trace) < 40 {
			s.Trace = append(s.Trace, g.Name+"@"+g.Site)
		}
		s.recent[s.Step%len(s.recent)] = g.Name + "@" + g.Site
		g.state.Store(gRunning)
		g.try = nil
		s.cur = g
		g.wake <- struct{}{}
	}
}

// enabled returns the enabled parked goroutines: the previous runner first
// (so that choice 0 means "no context switch"), the others sorted by name.
func (s *Sim) enabled() []*G {
	var en []*G
	for _, g := range s.parked {
		if g.try == nil || g.try() {
			en = append(en, g)
		}
	}
	sort.Slice(en, func(i, j int) bool {
		if (en[i] == s.last) != (en[j] == s.last) {
			return en[i] == s.last
		}
		return en[i].Name < en[j].Name
	})
	return en
}

func (s *Sim) choose(en []*G) int {
	n := len(en)
	if n == 1 {
		return 0
	}
	src := s.Sched
	if src.rng == nil {
		return src.Int("s", n)
	}
	var pick int
	switch s.strat {
	case Burst:
		if en[0] == s.last && src.rng.Float64() >= s.stratP {
			pick = 0
		} else if en[0] == s.last {
			pick = 1 + src.rng.IntN(n-1)
		} else {
			pick = src.rng.IntN(n)
		}
	case Priority:
		if s.changeAt[s.Step] && s.last != nil {
			s.prioSeq++
			s.last.prio = -s.prioSeq // lowest so far
		}
		pick = 0
		for i, g := range en {
			if g.prio > en[pick].prio {
				pick = i
			}
		}
	default:
		pick = src.rng.IntN(n)
	}
	src.record("s", n, pick)
	return pick
}

// nextTimer pops expired registrations and returns the time to the earliest
// pending library timer.
func (s *Sim) nextTimer() (time.Duration, bool) {
	now := time.Now()
	var keep []time.Time
	var best time.Duration
	found := false
	s.mu.Lock()
	for _, tk := range s.tickers {
		for !tk.next.After(now) {
			tk.next = tk.next.Add(tk.period)
		}
		if d := tk.next.Sub(now); !found || d < best {
			best, found = d, true
		}
	}
	s.mu.Unlock()
	for _, t := range s.timers {
		if !t.After(now) {
			continue
		}
		keep = append(keep, t)
		if d := t.Sub(now); !found || d < best {
			best, found = d, true
		}
	}
	s.timers = keep
	return best, found
}

// Advance moves the fake clock forward by d and lets timers fire.
func (s *Sim) Advance(d time.Duration) {
	time.Sleep(d)
	s.SimTime += d
}

// Unfinished lists goroutines that have not finished.
func (s *Sim) Unfinished() []*G {
	var out []*G
	for _, g := range s.all {
		if g.state.Load() != gDone {
			out = append(out, g)
		}
	}
	return out
}

// Goroutines returns the number of simulated goroutines created.
func (s *Sim) Goroutines() int { return len(s.all) }

// Finish ends the run: parked goroutines are abandoned (they stay blocked for
// the life of the process; the worker is recycled regularly).
func (s *Sim) Finish() {
	s.dead.Store(true)
	cur.CompareAndSwap(s, nil)
}

// HashString is a small helper for stable signatures.
func HashString(s string) uint64 {
	h := fnv.New64a()
	h.Write([]byte(s))
	return h.Sum64()
}

// AtomicNR / AtomicNV replace sync/atomic operations in instrumented code: a
// scheduling point, then the operation itself.
func Atomic0R[R any](site string, f func() R) R                     { Yield(site); return f() }
func Atomic1R[A, R any](site string, f func(A) R, a A) R            { Yield(site); return f(a) }
func Atomic2R[A, B, R any](site string, f func(A, B) R, a A, b B) R { Yield(site); return f(a, b) }
func Atomic3R[A, B, C, R any](site string, f func(A, B, C) R, a A, b B, c C) R {
	Yield(site)
	return f(a, b, c)
}
func Atomic0V(site string, f func())                                    { Yield(site); f() }
func Atomic1V[A any](site string, f func(A), a A)                       { Yield(site); f(a) }
func Atomic2V[A, B any](site string, f func(A, B), a A, b B)            { Yield(site); f(a, b) }
func Atomic3V[A, B, C any](site string, f func(A, B, C), a A, b B, c C) { Yield(site); f(a, b, c) }

// RecentSites lists the last n scheduling decisions (oldest first).
func (s *Sim) RecentSites(n int) string {
	if n > len(s.recent) {
		n = len(s.recent)
	}
	var out []string
	for i := s.Step - n + 1; i <= s.Step; i++ {
		if i > 0 {
			out = append(out, s.recent[i%len(s.recent)])
		}
	}
	return strings.Join(out, " ")
}

// FairAfterAny: see Run.
var FairAfterAny = 400

// SpinQuiescentAfter is the number of consecutive turns of a lone polling
// goroutine after which Run reports quiescence.
var SpinQuiescentAfter = 100

// SpinDetectAfter: see Run.
var SpinDetectAfter = 300

var spinDebug = os.Getenv("VERIF_SPINDEBUG") != ""

// dbgOut is where the VERIF_SPINDEBUG lines go (the file named by the variable).
func dbgOut() *os.File {
	f, err := os.OpenFile(os.Getenv("VERIF_SPINDEBUG"), os.O_APPEND|os.O_CREATE|os.O_WRONLY, 0o644)
	if err != nil {
		return os.Stderr
	}
	return f
}

func pollingSite(site string) bool {
	return strings.HasSuffix(site, ":atomic") || strings.HasSuffix(site, ":trysel") || strings.HasSuffix(site, ":lock")
}

func (g *G) spinHas(site string) bool {
	for _, x := range g.spinSites {
		if x == site {
			return true
		}
	}
	return false
}

// Limit of the automatic clock advance to library timers, per Run call.
var AutoAdvanceMax = 40

// AutoAdvanceRunMax is the same limit for a whole run (many goroutines that each
// re-arm a timer would otherwise use up the step budget between them).
var AutoAdvanceRunMax = 100

// AutoAdvanceReserve advances are granted to every Run call even when the
// run-wide limit is used up: a library with a perpetual ticker (a 50 ms monitor
// that notices the stop at its next tick) exhausts the run-wide limit at the
// first few quiescent points, and must still be seen to finish at the last ones.
var AutoAdvanceReserve = 4

// Timers and tickers of instrumented code: created on the bubble's fake clock
// as usual, and made known to the scheduler so that it moves the clock to them
// when nothing else can run (within the limits above).

type ticker struct {
	t      *time.Ticker
	period time.Duration
	next   time.Time
}

// NewTimer replaces time.NewTimer in instrumented code.
func NewTimer(d time.Duration) *time.Timer {
	t := time.NewTimer(d)
	registerFor(t, d)
	return t
}

// TimerReset replaces (*time.Timer).Reset.
func TimerReset(t *time.Timer, d time.Duration) bool {
	withdraw(t)
	registerFor(t, d)
	return t.Reset(d)
}

// TimerStop replaces (*time.Timer).Stop: a stopped timer no longer attracts the clock.
func TimerStop(t *time.Timer) bool {
	withdraw(t)
	return t.Stop()
}

func registerFor(t *time.Timer, d time.Duration) {
	s := cur.Load()
	if s == nil || s.dead.Load() {
		return
	}
	if d < 0 {
		d = 0
	}
	at := time.Now().Add(d)
	s.mu.Lock()
	s.timers = append(s.timers, at)
	if s.timerOf == nil {
		s.timerOf = map[*time.Timer]time.Time{}
	}
	s.timerOf[t] = at
	s.mu.Unlock()
}

func withdraw(t *time.Timer) {
	s := cur.Load()
	if s == nil {
		return
	}
	s.mu.Lock()
	if at, ok := s.timerOf[t]; ok {
		delete(s.timerOf, t)
		for i, x := range s.timers {
			if x.Equal(at) {
				s.timers = append(s.timers[:i], s.timers[i+1:]...)
				break
			}
		}
	}
	s.mu.Unlock()
}

// NewTicker replaces time.NewTicker.
func NewTicker(d time.Duration) *time.Ticker {
	t := time.NewTicker(d)
	if s := cur.Load(); s != nil && !s.dead.Load() {
		s.mu.Lock()
		s.tickers = append(s.tickers, &ticker{t: t, period: d, next: time.Now().Add(d)})
		s.mu.Unlock()
	}
	return t
}

// Tick replaces time.Tick.
func Tick(d time.Duration) <-chan time.Time { return NewTicker(d).C }

// TickerStop replaces (*time.Ticker).Stop.
func TickerStop(t *time.Ticker) {
	if s := cur.Load(); s != nil {
		s.mu.Lock()
		for i, tk := range s.tickers {
			if tk.t == t {
				s.tickers = append(s.tickers[:i], s.tickers[i+1:]...)
				break
			}
		}
		s.mu.Unlock()
	}
	t.Stop()
}

// TickerReset replaces (*time.Ticker).Reset.
func TickerReset(t *time.Ticker, d time.Duration) {
	if s := cur.Load(); s != nil {
		s.mu.Lock()
		for _, tk := range s.tickers {
			if tk.t == t {
				tk.period, tk.next = d, time.Now().Add(d)
			}
		}
		s.mu.Unlock()
	}
	t.Reset(d)
}

// Adopted wraps a function that a package outside the instrumented code starts
// in a goroutine of its own (errgroup.Group.Go): the goroutine registers with
// the simulator and parks before it runs f.
func Adopted(site string, f func() error) func() error {
	s := cur.Load()
	if s == nil || s.dead.Load() {
		return f
	}
	name := s.afName()
	return func() error {
		var err error
		s.adopt(name, site, func() { err = f() })
		return err
	}
}

// BeforeLocker is BeforeLock for a value of the interface type sync.Locker
// (cond.L.Lock()): the usual probe when it is a mutex, a plain yield otherwise.
func BeforeLocker(site string, l sync.Locker) {
	switch m := l.(type) {
	case *sync.Mutex:
		BeforeLock(site, func() bool {
			if m.TryLock() {
				m.Unlock()
				return true
			}
			return false
		})
	case *sync.RWMutex:
		BeforeLock(site, func() bool {
			if m.TryLock() {
				m.Unlock()
				return true
			}
			return false
		})
	default:
		Yield(site)
	}
}

// OnceDo replaces (*sync.Once).Do in instrumented code. A second caller of Do
// waits - natively, on Once's internal mutex - until the first has finished; if
// the first is parked inside f that wait would stall the scheduler. So callers
// queue on the simulator's side instead.
func OnceDo(site string, o *sync.Once, f func()) {
	s := cur.Load()
	if s == nil || s.dead.Load() || s.cur == nil {
		o.Do(f)
		return
	}
	s.mu.Lock()
	if s.onces == nil {
		s.onces = map[*sync.Once]*onceState{}
	}
	st := s.onces[o]
	if st != nil && st.done && atomic.LoadUint32((*uint32)(unsafe.Pointer(o))) == 0 {
		st = nil // the Once was re-armed by assignment (x.once = sync.Once{}): a new life
	}
	if st == nil {
		st = &onceState{}
		s.onces[o] = st
	}
	running := st.running && !st.done
	if !st.running {
		st.running = true
	}
	s.mu.Unlock()
	if running {
		Block(site, func() bool { return st.done })
		o.Do(f) // returns at once: already done
		return
	}
	defer func() { st.done = true }()
	o.Do(f)
}

type onceState struct{ running, done bool }

// ContextWithTimeoutCause / ContextWithDeadlineCause replace their context counterparts.
func ContextWithTimeoutCause(ctx context.Context, d time.Duration, cause error) (context.Context, context.CancelFunc) {
	register(d)
	return context.WithTimeoutCause(ctx, d, cause)
}

func ContextWithDeadlineCause(ctx context.Context, t time.Time, cause error) (context.Context, context.CancelFunc) {
	register(time.Until(t))
	return context.WithDeadlineCause(ctx, t, cause)
}

// TimeAfterFuncV and ContextAfterFuncV have the signatures of time.AfterFunc and
// context.AfterFunc: for references to those functions as values.
func TimeAfterFuncV(d time.Duration, f func()) *time.Timer {
	return TimeAfterFunc("value:afterfunc", d, f)
}
func ContextAfterFuncV(ctx context.Context, f func()) func() bool {
	return ContextAfterFunc("value:afterfunc", ctx, f)
}

// OnceFunc, OnceValue and OnceValues replace their sync counterparts: the
// sync.Once inside is one the simulator sees (OnceDo).
func OnceFunc(f func()) func() {
	var o sync.Once
	return func() { OnceDo("oncefunc", &o, f) }
}

func OnceValue[T any](f func() T) func() T {
	var o sync.Once
	var v T
	return func() T {
		OnceDo("oncevalue", &o, func() { v = f() })
		return v
	}
}

func OnceValues[T1, T2 any](f func() (T1, T2)) func() (T1, T2) {
	var o sync.Once
	var v1 T1
	var v2 T2
	return func() (T1, T2) {
		OnceDo("oncevalues", &o, func() { v1, v2 = f() })
		return v1, v2
	}
}

// FairAfter: consecutive turns of one goroutine at one site, with others
// enabled, after which the scheduler passes the token on.
var FairAfter = 200

// TimerFiresMax bounds how often per run a library timer is made to expire
// while goroutines are runnable.
var TimerFiresMax = 6

// tickerPeriod returns the period of the ticker whose next tick is d away (0: the
// earliest timer is not a ticker).
func (s *Sim) tickerPeriod(d time.Duration) time.Duration {
	now := time.Now()
	s.mu.Lock()
	defer s.mu.Unlock()
	for _, tk := range s.tickers {
		if tk.next.Sub(now) == d {
			return tk.period
		}
	}
	return 0
}
