package verifrt

import (
	"math/rand/v2"
)

// A Choice is one recorded decision: its kind, the number of options and the
// option taken.
type Choice struct {
	K string
	N int
	V int
}

// A Source produces every nondeterministic decision of a run, either from a
// PRNG (recording what it produced) or from a recorded tape. When a tape is
// exhausted every further decision is 0 ("simplest": no fault, no context
// switch, smallest size); a recorded value that does not fit the number of
// options offered is reduced modulo that number. Diverged is set when a tape
// entry does not match the kind or the number of options being asked for.
type Source struct {
	rng      *rand.Rand
	tape     []Choice
	pos      int
	Rec      []Choice
	Diverged bool
	Overrun  bool
}

// NewRandom returns a PRNG-backed source.
func NewRandom(seed, stream uint64) *Source {
	return &Source{rng: rand.New(rand.NewPCG(seed, stream))}
}

// NewReplay returns a tape-backed source.
func NewReplay(tape []Choice) *Source { return &Source{tape: tape} }

func (s *Source) Random() bool { return s.rng != nil }

func (s *Source) record(k string, n, v int) { s.Rec = append(s.Rec, Choice{k, n, v}) }

func (s *Source) next(k string, n int) int {
	if s.pos >= len(s.tape) {
		s.Overrun = true
		s.record(k, n, 0)
		return 0
	}
	c := s.tape[s.pos]
	s.pos++
	if c.K != k || c.N != n {
		s.Diverged = true
	}
	v := c.V
	if v < 0 {
		v = 0
	}
	if v >= n {
		v %= n
	}
	s.record(k, n, v)
	return v
}

// Int draws a uniform value in [0, n).
func (s *Source) Int(k string, n int) int {
	if n <= 1 {
		return 0
	}
	if s.rng == nil {
		return s.next(k, n)
	}
	v := s.rng.IntN(n)
	s.record(k, n, v)
	return v
}

// Chance is true with probability p.
func (s *Source) Chance(k string, p float64) bool {
	if s.rng == nil {
		return s.next(k, 2) != 0
	}
	v := 0
	if s.rng.Float64() < p {
		v = 1
	}
	s.record(k, 2, v)
	return v != 0
}

// Weighted draws index i with probability w[i]/sum(w).
func (s *Source) Weighted(k string, w []int) int {
	if s.rng == nil {
		return s.next(k, len(w))
	}
	tot := 0
	for _, x := range w {
		tot += x
	}
	r := s.rng.IntN(tot)
	v := 0
	for i, x := range w {
		if r < x {
			v = i
			break
		}
		r -= x
	}
	s.record(k, len(w), v)
	return v
}

// Range draws a uniform value in [lo, hi].
func (s *Source) Range(k string, lo, hi int) int {
	if hi <= lo {
		return lo
	}
	return lo + s.Int(k, hi-lo+1)
}

// Perm draws a permutation of n elements by successive choices.
func (s *Source) Perm(k string, n int) []int {
	p := make([]int, n)
	for i := range p {
		p[i] = i
	}
	for i := 0; i < n-1; i++ {
		j := i + s.Int(k, n-i)
		p[i], p[j] = p[j], p[i]
	}
	return p
}

// SplitMix64 derives per-run seeds.
func SplitMix64(x uint64) uint64 {
	x += 0x9e3779b97f4a7c15
	z := x
	z = (z ^ (z >> 30)) * 0xbf58476d1ce4e5b9
	z = (z ^ (z >> 27)) * 0x94d049bb133111eb
	return z ^ (z >> 31)
}
