package verifh

import (
	"context"
	"encoding/json"
	"errors"
	"fmt"
	"strings"

	"github.com/creachadair/jrpc2"
)

// ---------------------------------------------------------------------------
// C01: exactly one correlated response per call, none per notification

func (w *srvWorld) expectedReplies(msg *message) []*member {
	var out []*member
	for _, m := range msg.Members {
		if m.wantsReply() {
			out = append(out, m)
		}
	}
	return out
}

// checkC01 matches every outbound record against the inbound messages.
// Precondition: ids are unique in the workload; final quiescent point.
func (w *srvWorld) checkC01() {
	r := w.r
	w.noteArrivals()
	byID := map[string]*member{}
	idUsers := map[string][]*member{}
	for _, msg := range w.msgs {
		for _, m := range msg.Members {
			if m.ID != "" {
				byID[m.ID] = m
				idUsers[m.ID] = append(idUsers[m.ID], m)
			}
		}
	}
	// fits: the record is, in every respect judged here, the reply to msg
	fits := func(o *outRec, msg *message) bool {
		exp := w.expectedReplies(msg)
		if msg.Garbage || msg.Empty || o.Array != msg.Batch || len(exp) != len(o.Objs) {
			return false
		}
		for i, m := range exp {
			if w.checkResp(m, o.Objs[i]) != "" {
				return false
			}
		}
		return true
	}
	answered := map[int]*outRec{}
	for _, o := range w.out {
		if o.BadJSON || len(o.Objs) == 0 {
			r.Fail("wrong-shape", "outbound record is not a JSON object or non-empty array of objects: %s", o.Raw)
			return
		}
		if o.Objs[0].Method != "" {
			continue // a pushed request, not a response
		}
		var msg *message
		for _, ob := range o.Objs {
			if ob.ID != "null" && ob.ID != "" && len(idUsers[ob.ID]) == 1 {
				msg = w.msgs[idUsers[ob.ID][0].Msg]
				break
			}
		}
		if msg == nil {
			// only ids that two requests bear: the record is attributed to the
			// message it fits (a violation only if it fits none of them)
			var cands []*message
			for _, ob := range o.Objs {
				for _, m := range idUsers[ob.ID] {
					cands = append(cands, w.msgs[m.Msg])
				}
			}
			for _, c := range cands {
				if msg == nil && answered[c.Idx] == nil && fits(o, c) {
					msg = c
				}
			}
			for _, c := range cands {
				if msg == nil && answered[c.Idx] == nil {
					msg = c
				}
			}
			if msg == nil && len(cands) > 0 {
				msg = cands[0]
			}
		}
		if msg == nil {
			// only id-null objects: attribute to an unanswered inbound message
			// that expects exactly that many id-null errors in that shape. Such
			// messages are indistinguishable on the wire, so prefer one whose
			// handlers (notifications) have all returned by now: the record is
			// a violation only if no consistent attribution exists.
			var fallback *message
			handlersDone := func(c *message) bool {
				for _, m := range c.Members {
					if m.hasHandler() && m.Enter >= 0 && (m.Exit < 0 || m.Exit > o.Seq) {
						return false
					}
				}
				return true
			}
			for _, cand := range w.msgs {
				if answered[cand.Idx] != nil || cand.Arrive < 0 || cand.Arrive > o.Seq {
					continue
				}
				if cand.Garbage || cand.Empty {
					if !o.Array && len(o.Objs) == 1 {
						msg = cand
						break
					}
					continue
				}
				exp := w.expectedReplies(cand)
				if len(exp) != len(o.Objs) || cand.Batch != o.Array {
					continue
				}
				all := true
				for _, m := range exp {
					if m.Kind != mInvalid || m.EchoID != "null" {
						all = false
					}
				}
				if all && handlersDone(cand) {
					msg = cand
					break
				}
				if all && fallback == nil {
					fallback = cand
				}
			}
			if msg == nil {
				msg = fallback
			}
		}
		if msg == nil {
			r.Fail("extra-response", "outbound record answers no inbound message: %s", o.Raw)
			return
		}
		if prev := answered[msg.Idx]; prev != nil {
			r.Fail("extra-response", "inbound message %d (%s) answered twice: %s and %s", msg.Idx, msg.Raw, prev.Raw, o.Raw)
			return
		}
		answered[msg.Idx] = o
		if msg.Garbage || msg.Empty {
			ob := o.Objs[0]
			if o.Array || len(o.Objs) != 1 || ob.ID != "null" || !ob.HasErr || ob.HasRes || (ob.Code != -32700 && ob.Code != -32600) {
				r.Fail("wrong-id-or-payload", "message %q must be answered by one error object with id null, got %s", msg.Raw, o.Raw)
				return
			}
			continue
		}
		exp := w.expectedReplies(msg)
		if o.Array != msg.Batch {
			r.Fail("wrong-array-shape", "inbound message %d batch=%v answered with array=%v: %s -> %s", msg.Idx, msg.Batch, o.Array, msg.Raw, o.Raw)
			return
		}
		if len(exp) != len(o.Objs) {
			r.Fail("wrong-grouping", "inbound message %d expects %d response objects, outbound record has %d: %s -> %s", msg.Idx, len(exp), len(o.Objs), msg.Raw, o.Raw)
			return
		}
		for i, m := range exp {
			if why := w.checkResp(m, o.Objs[i]); why != "" {
				// distinguish a permutation from a wrong payload
				cls := "wrong-id-or-payload"
				for j, m2 := range exp {
					if j != i && w.checkResp(m2, o.Objs[i]) == "" {
						cls = "wrong-member-order"
					}
				}
				r.Fail(cls, "message %d position %d: %s; record %s", msg.Idx, i, why, o.Raw)
				return
			}
		}
		for _, m := range msg.Members {
			if m.hasHandler() && m.Enter >= 0 && (m.Exit < 0 || m.Exit > o.Seq) {
				r.Fail("reply-before-handlers-done", "reply to message %d sent at #%d while handler %s had not returned (exit #%d): %s", msg.Idx, o.Seq, m.Tag, m.Exit, o.Raw)
				return
			}
		}
	}
	for _, msg := range w.msgs {
		if msg.Arrive < 0 {
			continue
		}
		need := msg.Garbage || msg.Empty || len(w.expectedReplies(msg)) > 0
		if need && answered[msg.Idx] == nil {
			r.Fail("no-response", "inbound message %d got no response: %s", msg.Idx, msg.Raw)
			return
		}
		for _, m := range msg.Members {
			if m.DupOf != nil {
				if m.Enters == 0 {
					r.Probe("call-with-reused-id-rejected")
				} else {
					r.Probe("call-with-reused-id-accepted")
				}
			}
			switch {
			case m.hasHandler() && m.Enters == 0 && !(m.Kind == mCall && (w.cancelRequested(m) || m.DupOf != nil)):
				r.Fail("handler-not-run", "handler for %s (%s) never ran", m.Tag, m.Raw)
				return
			case m.hasHandler() && m.Enters > 1:
				r.Fail("handler-ran-twice", "handler for %s ran %d times", m.Tag, m.Enters)
				return
			case !m.hasHandler() && m.Enters > 0:
				r.Fail("handler-ran-for-invalid", "handler ran for %s member %s", m.Kind, m.Raw)
				return
			}
		}
	}
}

// ---------------------------------------------------------------------------
// C03: a notification completes before any later-arriving request starts

func (w *srvWorld) checkC03Order() {
	r := w.r
	w.noteArrivals()
	for i, mi := range w.msgs {
		for _, n := range mi.Members {
			if n.Kind != mNote || n.Enter < 0 {
				continue
			}
			for _, mj := range w.msgs[i+1:] {
				for _, q := range mj.Members {
					start := q.Enter
					if q.Kind == mRPCInfo {
						// no handler to observe: a lone built-in request has run by
						// the time its reply is passed to Send (inside a batch the
						// reply waits for the siblings and says nothing)
						start = -1
						if len(mj.Members) == 1 && w.repliedWithResult(q.ID) {
							start = w.replySeq(q.ID) // (an error reply - cancelled while waiting - proves no run)
						}
					}
					if start < 0 {
						continue
					}
					if n.Exit < 0 || n.Exit > start {
						r.Fail("entered-before-earlier-notification-exited", "request %s of message %d started at #%d but notification %s of earlier message %d returned at #%d", q.Tag, mj.Idx, start, n.Tag, mi.Idx, n.Exit)
						return
					}
				}
			}
		}
	}
}

// ---------------------------------------------------------------------------
// C07: cancellation hits only its target; ids reserved only while in flight

// A replyRef is the response object attributed to a member. With reused ids
// several inbound messages can be indistinguishable on the wire (same ids, no
// unique payload); then lo/hi bound the records the reply could be, and the
// oracle always uses the bound that favours the implementation.
type replyRef struct {
	rec    *outRec
	obj    respObj
	lo, hi *outRec
	mixed  bool // the candidate records differ in content: do not judge this member by its reply
}

func isDupReply(o respObj) bool {
	return o.HasErr && o.Code == -32600 && strings.Contains(o.Message, "duplicate request ID")
}

func (w *srvWorld) objTag(ob respObj) string {
	for tag := range w.byTag {
		if (ob.HasRes && strings.Contains(ob.Result, `"`+tag+`"`)) || (ob.HasErr && strings.HasSuffix(ob.Message, " "+tag)) {
			return tag
		}
	}
	return ""
}

func objKey(ob respObj) string {
	return fmt.Sprintf("%s|%v|%s|%d|%s", ob.ID, ob.HasRes, ob.Result, ob.Code, ob.Message)
}

// assignReplies attributes outbound records to inbound messages (one record
// answers one message, members in order - that is C01's business and assumed
// here) for workloads with reused ids.
func (w *srvWorld) assignReplies() (map[*member]replyRef, string) {
	got := map[*member]replyRef{}
	assigned := map[int]*outRec{}
	cands := map[*outRec][]*message{}
	for _, o := range w.out {
		if o.BadJSON || len(o.Objs) == 0 {
			return nil, "outbound record is not valid: " + o.Raw
		}
		if o.Objs[0].Method != "" {
			continue
		}
		allNull := true
		for _, ob := range o.Objs {
			if ob.ID != "null" && ob.ID != "" {
				allNull = false
			}
		}
		if allNull {
			o.matched = true // answers to id-less members and undecodable input: no id is involved
			continue
		}
		for _, msg := range w.msgs {
			if msg.Garbage || msg.Empty || msg.Arrive < 0 || msg.Arrive > o.Seq || msg.Batch != o.Array {
				continue
			}
			exp := w.expectedReplies(msg)
			if len(exp) != len(o.Objs) {
				continue
			}
			ok := true
			for i, m := range exp {
				id := m.ID
				if m.Kind == mInvalid {
					id = m.EchoID
				}
				if o.Objs[i].ID != id {
					ok = false
					break
				}
				t := w.objTag(o.Objs[i])
				if t != "" && t != m.Tag {
					ok = false
					break
				}
				// a member whose handler produced a tagged outcome is answered by it
				if t == "" && m.Enters > 0 && ((m.Result != "" && strings.Contains(m.Result, m.Tag)) || (m.Script.Outcome == 1 && m.HErr != "")) {
					ok = false
					break
				}
				if t != "" && m.Enters == 0 {
					ok = false
					break
				}
			}
			if ok {
				cands[o] = append(cands[o], msg)
			}
		}
	}
	// records with a single possible message first (to a fixed point), then
	// the rest in order, earliest-arrived candidate first
	recOf := map[*outRec]*message{}
	for progress := true; progress; {
		progress = false
		for _, o := range w.out {
			if recOf[o] != nil || len(cands[o]) == 0 {
				continue
			}
			var free []*message
			for _, c := range cands[o] {
				if assigned[c.Idx] == nil {
					free = append(free, c)
				}
			}
			if len(free) == 1 {
				recOf[o], assigned[free[0].Idx] = free[0], o
				progress = true
			}
		}
	}
	for _, o := range w.out {
		if o.Objs[0].Method != "" || recOf[o] != nil || o.matched {
			continue
		}
		for _, c := range cands[o] {
			if assigned[c.Idx] == nil {
				recOf[o], assigned[c.Idx] = c, o
				break
			}
		}
		if recOf[o] == nil {
			return nil, "no inbound message matches record " + o.Raw
		}
	}
	for _, o := range w.out {
		if pick := recOf[o]; pick != nil {
			for i, m := range w.expectedReplies(pick) {
				got[m] = replyRef{rec: o, obj: o.Objs[i], lo: o, hi: o}
			}
		}
	}
	// widen the bounds over every record the member's message was a candidate for
	for o, cs := range cands {
		for _, c := range cs {
			for i, m := range w.expectedReplies(c) {
				ref, ok := got[m]
				if !ok {
					continue
				}
				if o.Seq < ref.lo.Seq {
					ref.lo = o
				}
				if o.Seq > ref.hi.Seq {
					ref.hi = o
				}
				if objKey(o.Objs[i]) != objKey(ref.obj) {
					ref.mixed = true
				}
				got[m] = ref
			}
		}
	}
	return got, ""
}

func (w *srvWorld) checkC07() {
	r := w.r
	w.noteArrivals()
	replies, bad := w.assignReplies()
	if bad != "" {
		// Attribution failed: that is a C01 matter, not decidable here.
		r.Inconclusive("c07-attribution: " + bad)
		return
	}
	const inf = 1 << 30
	latestEnd := func(m *member) int {
		if ref, ok := replies[m]; ok && ref.hi.EndSeq > 0 {
			return ref.hi.EndSeq
		}
		return inf
	}
	earliestBegin := func(m *member) int {
		if ref, ok := replies[m]; ok {
			return ref.lo.Seq
		}
		return inf
	}
	// (i) every observed cancellation has a cause
	for _, msg := range w.msgs {
		for _, m := range msg.Members {
			for _, ob := range m.CtxObs {
				if ob.Err == "" {
					continue
				}
				if w.stopSeq >= 0 && w.stopSeq <= ob.Seq {
					break
				}
				if w.baseCancelSeq >= 0 && w.baseCancelSeq <= ob.Seq {
					r.Probe("handler-saw-base-context-end")
					break
				}
				justified := false
				for _, a := range w.acts {
					// invoked before the observation and still executing when (or after) the request arrived
					if a.Kind == aCancel && a.ID == m.ID && m.ID != "" && a.Invoke >= 0 && a.Invoke <= ob.Seq && (a.Return < 0 || a.Return >= msg.Arrive) {
						justified = true
					}
				}
				for _, m2 := range w.byTag {
					if m2.Script.CancelID == m.ID && m.ID != "" && m2.Enter >= 0 && m2.Enter <= ob.Seq {
						justified = true
					}
				}
				if !justified {
					r.Fail("ctx-cancelled-without-cause", "handler %s (id %s, message %d) saw its context cancelled (%s) at #%d but no CancelRequest(%s) was invoked while it was in flight and the server was not stopped", m.Tag, m.ID, msg.Idx, ob.Err, ob.Seq, m.ID)
					return
				}
				break
			}
		}
	}
	w.checkC07UnknownCancel(replies)
	if r.Failed() {
		return
	}
	// (ii) duplicates inside one batch: both fail, neither runs
	for _, msg := range w.msgs {
		// "two such members of one batch both fail": two well-formed requests
		// with one id (a member that is not a valid request at all is answered
		// with its own error and need not count as a request bearing the id)
		seen := map[string][]*member{}
		for _, m := range msg.Members {
			if m.ID != "" && m.Kind != mInvalid && m.Kind != mReply {
				seen[m.ID] = append(seen[m.ID], m)
			}
		}
		for _, id := range sortedKeys(seen) {
			ms := seen[id]
			if len(ms) < 2 {
				continue
			}
			for _, m := range ms {
				ref, ok := replies[m]
				if m.Enters > 0 {
					r.Fail("batch-duplicates-not-both-failed", "message %d carries id %s %d times, yet the handler of member %s ran", msg.Idx, id, len(ms), m.Tag)
					return
				}
				if m.Kind == mInvalid || !ok || ref.mixed {
					continue
				}
				if !ref.obj.HasErr {
					r.Fail("batch-duplicates-not-both-failed", "message %d carries id %s %d times; member %s was answered %+v instead of an error", msg.Idx, id, len(ms), m.Tag, ref.obj)
					return
				}
			}
		}
	}
	// (iii) reservation across messages
	for bi, bmsg := range w.msgs {
		for _, b := range bmsg.Members {
			if b.ID == "" || b.Kind == mInvalid {
				continue
			}
			// B was not rejected although an earlier request with its id was in flight
			// for the whole time between B's arrival and B's reply: the earlier one
			// arrived first and its reply was sent only after B's.
			if ref, ok := replies[b]; ok && !ref.mixed && !isDupReply(ref.obj) {
				for _, amsg := range w.msgs[:bi] {
					for _, a := range amsg.Members {
						if a.ID != b.ID || a.Kind == mInvalid || a.Kind == mReply || amsg.Arrive < 0 || amsg.Arrive > bmsg.Arrive {
							continue
						}
						ra, oka := replies[a]
						if !oka || ra.mixed || isDupReply(ra.obj) {
							continue
						}
						if ra.lo.Seq > latestEnd(b) {
							r.Fail("duplicate-accepted-while-in-flight", "call %s (id %s, arrived #%d) was answered %+v at #%d, not rejected, although request %s with the same id had arrived earlier (#%d) and was answered only later (#%d): the id was still reserved", b.Tag, b.ID, bmsg.Arrive, ref.obj.Code, ref.rec.Seq, a.Tag, amsg.Arrive, ra.lo.Seq)
							return
						}
					}
				}
			}
			if b.Enters > 0 {
				// B was accepted: no earlier same-id call that ran may still be in flight
				for _, amsg := range w.msgs[:bi] {
					for _, a := range amsg.Members {
						if a.ID == b.ID && a.Enters > 0 && earliestBegin(a) > b.Enter {
							r.Fail("duplicate-accepted-while-in-flight", "call %s (id %s) entered its handler at #%d while call %s with the same id, which entered at #%d, had not been answered yet (its reply is sent at #%d)", b.Tag, b.ID, b.Enter, a.Tag, a.Enter, earliestBegin(a))
							return
						}
					}
				}
				continue
			}
			ref, ok := replies[b]
			if !ok || ref.mixed || !isDupReply(ref.obj) {
				continue
			}
			// B was rejected as a duplicate: some other member with that id must
			// have been in flight at some moment between B's arrival and B's reply.
			excused := false
			last := ""
			for _, amsg := range w.msgs {
				for _, a := range amsg.Members {
					if a == b || a.ID != b.ID {
						continue
					}
					if amsg == bmsg {
						excused = true
					}
					if amsg.Arrive >= 0 && amsg.Arrive <= ref.hi.Seq && latestEnd(a) >= bmsg.Arrive {
						excused = true
					}
					if amsg.Arrive >= 0 && amsg.Arrive < bmsg.Arrive {
						if ra, ok := replies[a]; ok {
							last = fmt.Sprintf("%s (%s) answered code=%d %q, send ended #%d", a.Tag, a.Kind, ra.obj.Code, ra.obj.Message+ra.obj.Result, ra.hi.EndSeq)
						}
					}
				}
			}
			if !excused {
				r.Fail("reuse-rejected-after-reply", "call %s (id %s, message %d, arrived #%d) was rejected as a duplicate (reply at #%d) although no other request with that id was in flight between its arrival and its reply; previous use: %s", b.Tag, b.ID, bmsg.Idx, bmsg.Arrive, ref.rec.Seq, last)
				return
			}
		}
	}
}

// (iv) CancelRequest for an id that is not in flight does nothing: a call
// answered "cancelled" without its handler ever having run must have been
// named by a CancelRequest that overlaps the time it was in flight.
func (w *srvWorld) checkC07UnknownCancel(replies map[*member]replyRef) {
	r := w.r
	for _, msg := range w.msgs {
		for _, m := range msg.Members {
			ref, ok := replies[m]
			if m.Kind != mCall || m.ID == "" || m.Enters > 0 || !ok || ref.mixed || msg.Arrive < 0 {
				continue
			}
			// answered with an error that does not say something else (not a
			// duplicate rejection, not method-not-found ...): turned away as if cancelled
			if !ref.obj.HasErr || saysSomethingElse[ref.obj.Code] && ref.obj.Code != -32096 {
				continue
			}
			end := 1 << 30
			if ref.hi.EndSeq > 0 {
				end = ref.hi.EndSeq
			}
			justified := false
			for _, a := range w.acts {
				if a.Kind == aCancel && a.ID == m.ID && a.Invoke >= 0 && a.Invoke <= end && (a.Return < 0 || a.Return >= msg.Arrive) {
					justified = true
				}
			}
			for _, m2 := range w.byTag {
				if m2.Script.CancelID == m.ID && m2.Enter >= 0 && m2.Enter <= end && (m2.Exit < 0 || m2.Exit >= msg.Arrive) {
					justified = true
				}
			}
			if m.Script.CancelID == "waiting" || (w.stopSeq >= 0 && w.stopSeq <= end) || (w.baseCancelSeq >= 0 && w.baseCancelSeq <= end) {
				justified = true
			}
			if !justified {
				r.Fail("cancel-of-unknown-id-had-effect", "call %s (id %s, message %d, arrived #%d) was answered %q (%d) without its handler having run, but every CancelRequest(%s) had returned before it arrived: cancelling an id that is not in flight must do nothing", m.Tag, m.ID, msg.Idx, msg.Arrive, ref.obj.Message, ref.obj.Code, m.ID)
				return
			}
		}
	}
}

// stampSendEnds fills EndSeq of outbound records from the channel's events.
func (w *srvWorld) stampSendEnds() {
	byN := map[int]int{}
	for seq, e := range w.r.Sim.Events {
		if e.Kind == "ch.send.end" && e.Tag == "srv" {
			byN[e.A] = seq
		}
	}
	n := 0
	for seq, e := range w.r.Sim.Events {
		if e.Kind == "ch.send" && e.Tag == "srv" {
			_ = seq
			if n < len(w.out) {
				w.out[n].EndSeq = byN[e.A]
			}
			n++
		}
	}
}

// ---------------------------------------------------------------------------
// C09: server push

// stampReplyArrivals records when each peer reply reached the server (the
// Recv return of the record carrying it).
func (w *srvWorld) stampReplyArrivals() {
	arr := map[string]int{}
	for seq, e := range w.r.Sim.Events {
		if e.Kind == "ch.recv.ret" && e.Tag == "srv" {
			raw := e.S
			if i := strings.LastIndex(raw, "|"); i >= 0 {
				raw = raw[:i]
			}
			if _, ok := arr[raw]; !ok {
				arr[raw] = seq
			}
		}
	}
	for _, pr := range w.pushed {
		for i := range pr.Replies {
			if s, ok := arr[pr.Replies[i].Raw]; ok {
				pr.Replies[i].Arrive = s
				continue
			}
			// a reply that travelled inside an array together with requests
			best := -1
			for raw, s := range arr {
				if len(raw) > len(pr.Replies[i].Raw) && strings.Contains(raw, pr.Replies[i].Raw) && (best < 0 || s < best) {
					best = s
				}
			}
			if best >= 0 {
				pr.Replies[i].Arrive = best
			}
		}
	}
}

// peerSentPayload: the scripted peer has put this text into one of its records.
func (w *srvWorld) peerSentPayload(pay string) bool {
	if pay == "" {
		return false
	}
	for _, e := range w.r.Sim.Events {
		if e.Kind == "ch.send" && e.Tag == "peer" && strings.Contains(e.S, pay) {
			return true
		}
	}
	return false
}

func (w *srvWorld) firstCause() int {
	first := 1 << 30
	for _, c := range w.causes {
		if c.Begin < first {
			first = c.Begin
		}
	}
	return first
}

// firstDefiniteCause ignores events that may or may not end the connection.
func (w *srvWorld) firstDefiniteCause() int {
	first := 1 << 30
	for _, c := range w.causes {
		if !c.Optional && c.Begin < first {
			first = c.Begin
		}
	}
	return first
}

// connEnded is the sequence number after which the connection has certainly
// ended (an explicit Stop returned, or WaitStatus returned).
func (w *srvWorld) connEnded() int {
	e := 1 << 30
	// (Stop() having returned is not it: Stop may merely request the shutdown)
	for seq, ev := range w.r.Sim.Events {
		if ev.Kind == "ch.close" && ev.Tag == w.sEnd.Name {
			e = seq // the server has closed its channel
			break
		}
	}
	if w.waitSeq >= 0 && w.waitSeq < e {
		e = w.waitSeq
	}
	// any definite stop cause (peer close, channel failure) has taken effect by the
	// first quiescent point after it
	if fc := w.firstDefiniteCause(); fc < 1<<30 {
		for _, q := range w.qpoints {
			if q > fc && q < e {
				e = q
				break
			}
		}
	}
	return e
}

// checkC09 judges the push operations. final=false: at a quiescent point with
// the connection possibly still up (operations without a reason to return may
// still be pending); final=true: after shutdown (everything must have returned).
func (w *srvWorld) checkC09(final bool) {
	r := w.r
	w.noteArrivals()
	w.stampReplyArrivals()
	wire := map[string][]*pushRec{}
	for _, pr := range w.pushed {
		wire[pr.Tag] = append(wire[pr.Tag], pr)
	}
	// pushed requests seen by the server's Send (also those the peer never read)
	sent := map[string][]respObj{}
	sentSeq := map[string]int{}
	for _, o := range w.out {
		for _, ob := range o.Objs {
			if ob.Method != "" {
				var p tagParams
				json.Unmarshal([]byte(ob.Params), &p)
				sent[p.T] = append(sent[p.T], ob)
				sentSeq[p.T] = o.Seq
			}
		}
	}
	lastQ := -1
	if len(w.qpoints) > 0 {
		lastQ = w.qpoints[len(w.qpoints)-1]
	}
	used := map[string]string{}
	for _, a := range w.acts {
		if a.Kind != aNotify && a.Kind != aCallback {
			continue
		}
		if a.Invoke < 0 {
			continue
		}
		if w.restartSeq >= 0 && a.Invoke >= w.restartSeq {
			// issued (by a handler that outlived its connection) after the server
			// was started again: it belongs to the new connection, whose traffic
			// is judged separately
			continue
		}
		if !w.push {
			// after the connection has ended both clauses apply (ErrPushUnsupported,
			// ErrConnClosed) and the property gives neither precedence
			ended := a.Done && w.firstCause() <= a.Return
			if a.Done && !errors.Is(a.ErrV, jrpc2.ErrPushUnsupported) && !(ended && errors.Is(a.ErrV, jrpc2.ErrConnClosed)) {
				r.Fail("push-sent-while-disabled", "%s with AllowPush=false returned %q, want ErrPushUnsupported", a.Tag, a.Err)
				return
			}
			if len(sent[a.Tag]) > 0 {
				r.Fail("push-sent-while-disabled", "%s transmitted %d requests although AllowPush=false", a.Tag, len(sent[a.Tag]))
				return
			}
			if !a.Done {
				r.Fail("callback-never-returned", "%s with AllowPush=false has not returned", a.Tag)
				return
			}
			continue
		}
		if a.Invoke > w.connEnded() && (w.restartSeq < 0 || a.Invoke < w.restartSeq) {
			if a.Done && !errors.Is(a.ErrV, jrpc2.ErrConnClosed) {
				r.Fail("wrong-error-after-close", "%s invoked at #%d, after the connection had ended (#%d), returned %q, want ErrConnClosed", a.Tag, a.Invoke, w.connEnded(), a.Err)
				return
			}
			if len(sent[a.Tag]) > 0 {
				r.Fail("wrong-error-after-close", "%s invoked after the connection had ended transmitted a request", a.Tag)
				return
			}
		}
		if len(sent[a.Tag]) >= 1 && sent[a.Tag][0].Method != a.Method {
			r.Fail("push-wrong-request", "%s was issued for method %q, the request on the wire names %q", a.Tag, a.Method, sent[a.Tag][0].Method)
			return
		}
		if len(sent[a.Tag]) > 1 {
			r.Fail("notify-record-count", "%s transmitted %d requests, want exactly one", a.Tag, len(sent[a.Tag]))
			return
		}
		stopped := w.firstCause() <= a.Return || (a.Return < 0 && w.firstCause() < 1<<30)
		if a.Kind == aNotify {
			if !a.Done {
				if final || (lastQ > a.Invoke && a.FromH == nil) {
					r.Fail("callback-never-returned", "Notify %s has not returned", a.Tag)
					return
				}
				continue
			}
			if a.ErrV == nil {
				if len(sent[a.Tag]) != 1 || sent[a.Tag][0].ID != "" {
					r.Fail("notify-record-count", "Notify %s returned nil but transmitted %d requests (want one, without id): %+v", a.Tag, len(sent[a.Tag]), sent[a.Tag])
					return
				}
			} else if !(errors.Is(a.ErrV, jrpc2.ErrConnClosed) && w.firstCause() <= a.Return) && w.sEnd.NSendFault == 0 {
				r.Fail("wrong-outcome", "Notify %s failed with %q although the connection was up", a.Tag, a.Err)
				return
			}
			continue
		}
		// Callback
		var id string
		if len(sent[a.Tag]) == 1 {
			id = sent[a.Tag][0].ID
			if id == "" {
				r.Fail("notify-record-count", "Callback %s transmitted a request without id", a.Tag)
				return
			}
		}
		var replies []peerReply
		for _, pr := range wire[a.Tag] {
			replies = append(replies, pr.Replies...)
		}
		// stray reply-shaped members of the message stream with this id count as replies for it
		for _, msg := range w.msgs {
			for _, m := range msg.Members {
				if m.Kind == mReply && id != "" && m.ID == id && msg.Sent >= 0 {
					replies = append(replies, peerReply{Seq: msg.Sent, Arrive: msg.Arrive, Payload: "stray-" + m.Tag})
				}
			}
		}
		ctxEnd, ctxEndDone := 1<<30, 1<<30
		if a.CancelSeq >= 0 {
			ctxEnd, ctxEndDone = a.CancelSeq, a.CancelEnd
		}
		// a call handler's context can be cancelled by CancelRequest: only then may a
		// callback issued from it with that context end "cancelled" on its account
		hctxMayEnd := false
		if a.FromH != nil && a.FromH.ID != "" {
			for _, c := range w.acts {
				if c.Kind == aCancel && c.ID == a.FromH.ID && c.Invoke >= 0 && (a.Return < 0 || c.Invoke <= a.Return) {
					hctxMayEnd = true
				}
			}
		}
		if !a.Done {
			reason := ""
			for _, rep := range replies {
				if rep.Arrive >= 0 && rep.Arrive < lastQ && rep.Arrive > sentSeq[a.Tag] {
					reason = "a reply for its id arrived at #" + fmt.Sprint(rep.Arrive)
				}
			}
			if ctxEndDone < lastQ {
				reason = "its context ended at #" + fmt.Sprint(ctxEnd)
			}
			if w.connEnded() < lastQ {
				reason = "the connection ended at #" + fmt.Sprint(w.connEnded())
			}
			if final {
				reason = "the server has exited"
			}
			if reason != "" && lastQ > a.Invoke {
				r.Fail("callback-never-returned", "Callback %s (id %s) has not returned although %s (last quiescent point #%d)", a.Tag, id, reason, lastQ)
				return
			}
			continue
		}
		switch {
		case errors.Is(a.ErrV, jrpc2.ErrConnClosed):
			if !stopped {
				r.Fail("wrong-outcome", "Callback %s returned ErrConnClosed although the connection was up", a.Tag)
				return
			}
		case a.Result != "" && !strings.HasPrefix(a.Result, "X:"):
			// returned a reply: it must be one the peer sent for this id, not yet consumed
			pay := ""
			for _, rep := range replies {
				if rep.Seq <= a.Return && (strings.Contains(a.Result, `"`+rep.Payload+`"`) || a.Result == "E:"+rep.Payload) {
					// a reply that had arrived, and been dealt with (a quiescent point
					// followed), before this Callback was even invoked was unsolicited:
					// it is discarded and completes nothing
					early := false
					for _, q := range w.qpoints {
						if rep.Arrive >= 0 && rep.Arrive < q && q <= a.Invoke {
							early = true
						}
					}
					if early {
						r.Fail("callback-foreign-reply", "Callback %s (id %s, invoked #%d) returned %s, a reply that had arrived at #%d - before the callback existed; an unsolicited reply is discarded and completes nothing", a.Tag, id, a.Invoke, a.Result, rep.Arrive)
						return
					}
					pay = rep.Payload
					if rep.IsErr && rep.Code != 0 && (a.ErrCode != rep.Code || compactJSON(a.ErrData) != fmt.Sprintf(`{"d":%q}`, rep.Payload)) {
						r.Fail("callback-foreign-reply", "Callback %s: the client answered with error code %d and data {\"d\":%q}; Callback returned code %d data %s (client failures must arrive as the *Error the client sent)", a.Tag, rep.Code, rep.Payload, a.ErrCode, a.ErrData)
						return
					}
				}
			}
			if pay == "" && stopped && strings.HasPrefix(a.Result, "E:") && !w.peerSentPayload(strings.TrimPrefix(a.Result, "E:")) {
				// an *Error that carries nothing the peer ever sent, returned once the
				// server had stopped: "an error when the server stops" (any error)
				break
			}
			if pay == "" {
				r.Fail("callback-foreign-reply", "Callback %s (id %s) returned %s, which the peer never sent for that id (replies for it: %+v)", a.Tag, id, a.Result, replies)
				return
			}
			if other, dup := used[pay]; dup {
				r.Fail("callback-foreign-reply", "reply payload %s was returned to both %s and %s", pay, other, a.Tag)
				return
			}
			used[pay] = a.Tag
		case errors.Is(a.ErrV, context.Canceled) || errors.Is(a.ErrV, context.DeadlineExceeded):
			// "the context's error": C09 does not name the sentinel values, so an
			// error that wraps the context's error (with its cause, say) counts
			if a.ClockFired {
				break // the deadline passed at a moment the workload did not choose: nothing more to judge
			}
			okCtx := ((a.CtxKind == 1 || a.CtxKind == 3) && errors.Is(a.ErrV, context.Canceled) && ctxEnd <= a.Return) ||
				(a.CtxKind == 2 && errors.Is(a.ErrV, context.DeadlineExceeded) && ctxEnd <= a.Return) ||
				(errors.Is(a.ErrV, context.Canceled) && (stopped || hctxMayEnd))
			if !okCtx {
				r.Fail("wrong-outcome", "Callback %s returned %v but its context (kind %d) had not ended and the server had not stopped", a.Tag, a.ErrV, a.CtxKind)
				return
			}
			// must have returned a reply if one arrived before a quiescent point that precedes the context end and any stop
			for _, rep := range replies {
				if rep.Arrive < 0 || rep.Arrive < sentSeq[a.Tag] {
					continue
				}
				for _, q := range w.qpoints {
					if rep.Arrive < q && q <= ctxEnd && q < w.firstCause() && !hctxMayEnd {
						if _, taken := used[rep.Payload]; !taken {
							r.Fail("wrong-outcome", "Callback %s (id %s) returned %v although reply %s had arrived at #%d, before the quiescent point #%d that precedes the end of its context (#%d)", a.Tag, id, a.ErrV, rep.Payload, rep.Arrive, q, ctxEnd)
							return
						}
					}
				}
			}
		default:
			if a.ErrV == nil {
				// success without anything the peer sent: neither a reply nor an error
				r.Fail("callback-foreign-reply", "Callback %s (id %s) returned success with the result %q, but the peer sent no such reply for that id (replies for it: %+v; server stopped: %v)", a.Tag, id, a.Result, replies, stopped)
				return
			}
			if !stopped && w.sEnd.NSendFault == 0 {
				r.Fail("wrong-outcome", "Callback %s returned error %q although nothing had failed", a.Tag, a.Err)
				return
			}
		}
	}
	// callback ids unique among outstanding callbacks
	type span struct {
		tag      string
		from, to int
	}
	byID := map[string][]span{}
	for _, a := range w.acts {
		if a.Kind == aCallback && len(sent[a.Tag]) == 1 {
			to := a.Return
			if to < 0 {
				to = 1 << 30
			}
			id := sent[a.Tag][0].ID
			for _, o := range byID[id] {
				if sentSeq[a.Tag] < o.to && o.from < to {
					r.Fail("callback-id-collision", "callbacks %s and %s were outstanding at the same time with the same id %s", o.tag, a.Tag, id)
					return
				}
			}
			byID[id] = append(byID[id], span{a.Tag, sentSeq[a.Tag], to})
		}
	}
	// stray output: a reply that matches no outstanding callback must provoke no
	// response object bearing its id. Count, per id, the response objects sent
	// against the client's own requests with that id; an excess on an id that a
	// reply-shaped inbound member carried is an answer to that reply.
	if w.push {
		replyIDs := map[string]bool{}
		for _, pr := range w.pushed {
			if len(pr.Replies) > 0 {
				replyIDs[pr.ID] = true
			}
		}
		for _, msg := range w.msgs {
			for _, m := range msg.Members {
				if m.Kind == mReply && msg.Sent >= 0 {
					replyIDs[m.ID] = true
				}
			}
		}
		for _, e := range w.r.Sim.Events {
			if e.Kind == "peer.reply" {
				o := &outRec{Raw: e.S}
				parseOut(o)
				for _, ob := range o.Objs {
					if ob.Method == "" && ob.ID != "" && ob.ID != "null" {
						replyIDs[ob.ID] = true
					}
				}
			}
		}
		sentPerID := map[string]int{}
		var example = map[string]string{}
		for _, o := range w.out {
			for _, ob := range o.Objs {
				if ob.Method == "" && ob.ID != "" && ob.ID != "null" {
					sentPerID[ob.ID]++
					example[ob.ID] = o.Raw
				}
			}
		}
		for _, id := range sortedKeys(sentPerID) {
			if !replyIDs[id] {
				continue
			}
			reqs := 0
			for _, m := range w.memberByID(id) {
				if m.Kind != mReply && w.msgs[m.Msg].Arrive >= 0 {
					reqs++
				}
			}
			if sentPerID[id] > reqs {
				r.Fail("stray-output-for-unmatched-reply", "the server sent %d response objects with id %s but the client made only %d requests with that id; a reply that matches no outstanding callback must be discarded silently, not answered (e.g. %s)", sentPerID[id], id, reqs, example[id])
				return
			}
		}
	}
}

// checkC07Prompt (at a quiescent point): a lone request that bears the id of a
// call which entered its handler before the request arrived, and which is still
// running, is a duplicate of an in-flight id: "rejected ... without disturbing
// the first" - it must have been answered by now (nothing the property allows
// holds a duplicate back when a handler slot is free and no earlier
// notification is unfinished).
func (w *srvWorld) checkC07Prompt() {
	// (only with a handler slot to spare: an implementation may route rejections
	// through the same queue as everything else)
	if w.stopSeq >= 0 || w.baseCancelSeq >= 0 || w.running >= w.K {
		return
	}
	w.noteArrivals()
	unfinishedNote := false
	for bi, bmsg := range w.msgs {
		if bmsg.Sent < 0 {
			return
		}
		if !unfinishedNote && bmsg.Arrive >= 0 && len(bmsg.Members) == 1 && !bmsg.Garbage && !bmsg.Empty {
			b := bmsg.Members[0]
			if b.ID != "" && b.Kind != mInvalid && b.Kind != mReply {
				for _, amsg := range w.msgs[:bi] {
					for _, a := range amsg.Members {
						if a.ID == b.ID && a.Kind == mCall && a.Enter >= 0 && a.Enter < bmsg.Arrive && a.Exit < 0 {
							answered := false
							for _, o := range w.out {
								for _, ob := range o.Objs {
									if ob.Method == "" && ob.ID == b.ID && o.Seq > bmsg.Arrive {
										answered = true
									}
								}
							}
							if !answered {
								w.r.Fail("duplicate-not-rejected-while-in-flight", "request %s (id %s, arrived #%d) bears the id of call %s, which entered its handler at #%d and is still running, yet it has not been answered at this quiescent point: a duplicate of an in-flight id is rejected, not held back", b.Tag, b.ID, bmsg.Arrive, a.Tag, a.Enter)
								return
							}
						}
					}
				}
			}
		}
		for _, m := range bmsg.Members {
			if m.Kind == mNote && m.Exit < 0 {
				unfinishedNote = true
			}
		}
	}
}
