// Package verifh is the simulation harness: workloads, simulated seams and
// oracles for the claimed properties of creachadair/jrpc2. It is copied into a
// scratch copy of the module (next to the instrumented library) at check time.
package verifh

import (
	"fmt"
	"sort"
	"strings"
	"testing"
	"testing/synctest"
	"time"

	rt "github.com/creachadair/jrpc2/verifrt"
)

// Violation is a property violation found by an oracle.
type Violation struct {
	Prop  string `json:"property"`
	Class string `json:"class"`
	Msg   string `json:"message"`
	Step  int    `json:"step"`
}

// Result is what one simulated run reports.
type Result struct {
	Prop         string
	Seed         uint64
	Violation    *Violation
	Inconclusive string // non-empty: the run cannot be judged (reason)
	Steps        int
	Goroutines   int
	SchedHash    uint64
	CaseHash     uint64 // hash of (workload, schedule) or (stream, cuts)
	Nontrivial   bool
	MaxEnabled   int
	Switches     int
	SwitchPairs  []string
	SimTime      time.Duration
	Faults       map[string]int // fired fault kinds
	Probes       map[string]int // rare-condition probes hit
	Strategy     string
	Gen, Sched   []rt.Choice
	Diverged     bool
	Events       []string
	Sample       any
	Trace        []string
	HarnessError string
	LibRecvOps, LibSendOps int
}

// Run is the per-run context shared by workloads and oracles.
type Run struct {
	Prop   string
	Sim    *rt.Sim
	Gen    *rt.Source
	Sch    *rt.Source
	viol   *Violation
	incon  string
	Faults map[string]int
	Probes map[string]int
	Sample any
	Tier   string
	extra  uint64 // extra case hash material
	Force  *ForcedFault
	libRecvOps, libSendOps int
}

// A ForcedFault overrides the scripted channel faults of a scenario: the
// k-th Recv (or Send) of the library's channel end fails in the given way.
// Used by the systematic sweep "fail every channel operation of this workload".
type ForcedFault struct {
	Recv bool `json:"recv"`
	At   int  `json:"at"`
	Kind int  `json:"kind"`
}

// applyForce replaces the fault script of e by the forced fault, if any.
func (r *Run) applyForce(e *End) {
	if r.Force == nil {
		return
	}
	e.FaultRecvAt, e.FaultSendAt = map[int]int{}, map[int]int{}
	e.FaultRate = 0
	if r.Force.Recv {
		e.FaultRecvAt[r.Force.At] = r.Force.Kind
	} else {
		e.FaultSendAt[r.Force.At] = r.Force.Kind
	}
}

// noteOps records how many channel operations the library made on e.
func (r *Run) noteOps(e *End) { r.libRecvOps, r.libSendOps = e.recvOps, e.sendOps }

// Fail records the first violation of the run.
func (r *Run) Fail(class, format string, args ...any) {
	if r.viol != nil {
		return
	}
	r.viol = &Violation{Prop: r.Prop, Class: class, Msg: fmt.Sprintf(format, args...), Step: r.Sim.Step}
	r.Sim.Event("VIOLATION", class, 0, 0, r.viol.Msg)
}

func (r *Run) Failed() bool { return r.viol != nil }

func (r *Run) Inconclusive(reason string) {
	if r.incon == "" {
		r.incon = reason
	}
}

func (r *Run) Fault(kind string) { r.Faults[kind]++ }
func (r *Run) Probe(kind string) { r.Probes[kind]++ }

func (r *Run) Ev(kind, tag string, a, b int, s string) { r.Sim.Event(kind, tag, a, b, s) }

// RunQ runs the scheduler to quiescence. It returns false if the run must be
// abandoned (panic, step cap).
func (r *Run) RunQ() bool {
	switch r.Sim.Run() {
	case rt.Quiescent:
		return true
	case rt.StepCap:
		if boundedProgress[r.Prop] {
			// The workloads of these properties reach quiescence within a few
			// hundred steps; their statements promise that operations return
			// ("nothing blocks", "WaitStatus returns", "Loop returns", "Recv
			// terminates", "each HTTP request is answered"). A run that
			// is still busy after MaxSteps steps - a retry or polling loop that
			// never ends - has not kept that promise within the step budget.
			r.Fail("no-progress-within-step-budget", "the run did not reach quiescence within %d scheduling steps (simulated time %v): some goroutine keeps running without completing; last sites: %s", MaxSteps, r.Sim.SimTime, r.Sim.RecentSites(12))
			return false
		}
		r.Inconclusive("step-cap")
		return false
	case rt.Panicked:
		msg := r.Sim.PanicMsg
		if strings.HasPrefix(msg, "HARNESS:") {
			r.Inconclusive("harness-error: " + msg)
			return false
		}
		if !panicConcerns(r.Prop, r.Sim.PanicStack) {
			// the library panicked, but not in the code this property is anchored
			// in: the run cannot be judged for this property (the checks of the
			// properties anchored there report it)
			r.Inconclusive("library-panic-elsewhere: " + msg)
			return false
		}
		r.Fail("panic:"+panicClass(msg), "goroutine %s panicked: %s\n%s", r.Sim.PanicG, msg, trimStack(r.Sim.PanicStack))
		return false
	}
	return false
}

// anchorFiles lists, per property, the library files its mechanism lives in
// (the "anchors.files" of properties.jsonl). A library panic is a violation of
// a property when it happens in one of them.
var anchorFiles = map[string][]string{
	"C01": {"server.go", "json.go"},
	"C03": {"server.go"},
	"C04": {"client.go", "base.go", "json.go"},
	"C05": {"client.go", "base.go", "opts.go"},
	"C06": {"server.go", "opts.go"},
	"C07": {"server.go"},
	"C08": {"server.go", "channel/channel.go", "server/local.go", "json.go", "base.go"},
	"C09": {"server.go", "client.go", "base.go", "opts.go"},
	"C10": {"server.go", "client.go", "json.go", "channel/channel.go"},
	"C11": {"channel/split.go", "channel/hdr.go", "channel/json.go", "channel/channel.go"},
	"C12": {"channel/hdr.go", "channel/split.go", "channel/json.go", "server.go"},
	"C18": {"jhttp/bridge.go", "client.go", "base.go", "server/local.go"},
	"C19": {"jhttp/getter.go", "jhttp/channel.go", "jhttp/bridge.go"},
	"C20": {"server/loop.go", "server.go"},
}

// Properties whose statement is about ordering, limits, cancellation targets,
// push semantics or channel discipline do not say anything about panics: a
// panicking run is not judged by their checks (C08, C01, C04, C05 and the
// composite checks report server/client panics).
var noPanicClause = map[string]bool{"C03": true, "C06": true, "C07": true, "C09": true, "C10": true}

// boundedProgress: the checks for which exhausting the step budget is a
// violation rather than an unjudged run: all whose workloads end within a few
// hundred steps on the pinned tree (every one but C11, whose multi-megabyte
// records read byte by byte do hit the cap). Each of these properties promises
// that something happens - a response is sent, a request starts, an operation
// returns, Recv terminates; a run still busy after 20000 steps has a goroutine
// that spins or polls instead.
var boundedProgress = map[string]bool{"C01": true, "C03": true, "C04": true, "C05": true, "C06": true, "C07": true, "C08": true, "C09": true, "C10": true, "C12": true, "C18": true, "C19": true, "C20": true}

// panicFuncs: a property without a general no-panic clause can still promise
// "exactly once" for one mechanism; a double completion there shows only as a
// panic (send on a closed channel), so a panic inside that mechanism is its
// violation.
var panicFuncs = map[string][]string{
	"C09": {".waitCallback(", ".pushReq(", ".Callback(", ".filterBatchLocked(", "(*Response).wait("},
}

func panicConcerns(prop, stack string) bool {
	for _, f := range panicFuncs[prop] {
		if strings.Contains(stack, f) {
			return true
		}
	}
	if noPanicClause[prop] {
		return false
	}
	files, ok := anchorFiles[prop]
	if !ok {
		return true
	}
	for _, f := range files {
		if strings.Contains(stack, "/src/"+f+":") {
			return true
		}
	}
	return false
}

func panicClass(msg string) string {
	// keep the stable part of the panic message
	if i := strings.IndexByte(msg, '\n'); i >= 0 {
		msg = msg[:i]
	}
	for _, p := range []string{"Mismatched response ID", "runtime error: invalid memory address", "send on closed channel", "close of closed channel", "makeslice", "sync: negative WaitGroup counter", "sync: WaitGroup is reused", "semaphore: released more than held"} {
		if strings.Contains(msg, p) {
			return p
		}
	}
	if len(msg) > 60 {
		msg = msg[:60]
	}
	return msg
}

func trimStack(s string) string {
	lines := strings.Split(s, "\n")
	var out []string
	for _, l := range lines {
		if strings.Contains(l, "/verifrt/") || strings.Contains(l, "runtime/debug") || strings.Contains(l, "runtime/panic") {
			continue
		}
		out = append(out, l)
		if len(out) > 24 {
			break
		}
	}
	return strings.Join(out, "\n")
}

// Scenario is a property's workload + oracle.
type Scenario func(r *Run)

var scenarios = map[string]Scenario{}

// MaxSteps is the step cap per run.
var MaxSteps = 20000

// RunOne executes one simulated run in a fresh bubble.
// Forced is the fault override of the next RunOne call (nil: none).
var Forced *ForcedFault

func RunOne(t *testing.T, prop, tier string, seed uint64, gen, sched *rt.Source, keepEvents bool) (res *Result) {
	sc := scenarios[prop]
	if sc == nil {
		return &Result{Prop: prop, HarnessError: "no scenario for " + prop}
	}
	res = &Result{Prop: prop, Seed: seed}
	finished := false
	func() {
		defer func() {
			if p := recover(); p != nil {
				if !finished {
					res.HarnessError = fmt.Sprintf("scheduler panic: %v", p)
				}
				// otherwise: synctest's "blocked goroutines remain" after an abandoned run
			}
		}()
		synctest.Test(t, func(t *testing.T) {
			sim := rt.New(gen, sched, MaxSteps)
			defer sim.Finish()
			r := &Run{Prop: prop, Sim: sim, Gen: gen, Sch: sched, Faults: map[string]int{}, Probes: map[string]int{}, Tier: tier, Force: Forced}
			sim.TraceAll = keepEvents
			func() {
				defer func() {
					if p := recover(); p != nil {
						res.HarnessError = fmt.Sprintf("scenario panic: %v", p)
					}
				}()
				sc(r)
			}()
			res.Violation = r.viol
			res.Inconclusive = r.incon
			res.Steps = sim.Step
			res.Goroutines = sim.Goroutines()
			res.SchedHash = sim.SchedHash()
			res.MaxEnabled = sim.MaxEnabled
			res.Nontrivial = sim.MaxEnabled >= 2 || r.extra != 0
			res.Switches = sim.Switches
			res.SimTime = sim.SimTime
			res.Faults = r.Faults
			res.LibRecvOps, res.LibSendOps = r.libRecvOps, r.libSendOps
			res.Probes = r.Probes
			res.Sample = r.Sample
			res.Trace = sim.Trace
			res.Gen = gen.Rec
			res.Sched = sched.Rec
			res.Diverged = gen.Diverged || sched.Diverged
			h := sim.SchedHash()
			for _, c := range gen.Rec {
				h = (h ^ uint64(c.V+1)) * 1099511628211
			}
			res.CaseHash = h ^ r.extra
			if keepEvents || r.viol != nil {
				for _, e := range sim.Events {
					res.Events = append(res.Events, e.String())
				}
				for k := range sim.SwitchPairs {
					res.SwitchPairs = append(res.SwitchPairs, k)
				}
				sort.Strings(res.SwitchPairs)
			} else {
				for k := range sim.SwitchPairs {
					res.SwitchPairs = append(res.SwitchPairs, k)
				}
			}
			finished = true
		})
	}()
	return res
}

// drawStrategy picks the scheduling strategy of the run (swarm configuration).
func (r *Run) drawStrategy() string {
	switch r.Gen.Weighted("strategy", []int{3, 4, 3}) {
	case 1:
		p := []float64{0.02, 0.1, 0.3}[r.Gen.Int("burstp", 3)]
		r.Sim.SetStrategy(rt.Burst, p, nil)
		return fmt.Sprintf("burst(%.2f)", p)
	case 2:
		d := 1 + r.Gen.Int("pctd", 4)
		var cps []int
		for i := 0; i < d; i++ {
			cps = append(cps, r.Gen.Int("pctcp", 400))
		}
		r.Sim.SetStrategy(rt.Priority, 0, cps)
		return fmt.Sprintf("pct(%d)", d)
	}
	r.Sim.SetStrategy(rt.Uniform, 0, nil)
	return "uniform"
}
