package verifh

import (
	"context"
	"encoding/json"
	"errors"
	"fmt"
	"io"
	"net"
	"strings"

	"github.com/creachadair/jrpc2"
	"github.com/creachadair/jrpc2/channel"
)

func init() {
	scenarios["C04"] = scenarioC04
	scenarios["C05"] = scenarioC05
	cliScenarioC10 = scenarioC10Client
}

func payloadOf(got string) string {
	var v struct {
		R string `json:"r"`
	}
	if json.Unmarshal([]byte(got), &v) == nil && v.R != "" {
		return v.R
	}
	var arr []any
	if json.Unmarshal([]byte(got), &arr) == nil && len(arr) > 0 {
		if s, ok := arr[0].(string); ok {
			return s
		}
	}
	var str string
	if json.Unmarshal([]byte(got), &str) == nil && str != "" {
		return str
	}
	return got
}

// checkMatching is the C04 oracle (also run inside C05, where operations may
// in addition end with context or stop errors). allowOther reports whether an
// operation may end with an error that is not a peer reply.
func (w *cliWorld) checkMatching(final bool, faulty bool) {
	r := w.r
	w.stampArrivals()
	used := map[string]string{}
	for _, op := range w.ops {
		if op.Returns > 1 {
			r.Fail("op-returned-twice", "%s %d returned %d times", op.Kind, op.Idx, op.Returns)
			return
		}
		if !op.Done {
			continue
		}
		if op.Kind == oBatch && op.Err == nil {
			want := 0
			for _, q := range op.Reqs {
				if !q.Notify {
					want++
				}
			}
			if op.NRsp != want {
				r.Fail("batch-order", "Batch %d returned %d responses for %d non-notification specs", op.Idx, op.NRsp, want)
				return
			}
			for _, q := range op.Reqs {
				if !q.Notify && q.ID != "" && q.RspID != q.ID {
					r.Fail("batch-order", "Batch %d: the response in the position of spec %s has id %s, but that request was sent with id %s", op.Idx, q.Tag, q.RspID, q.ID)
					return
				}
			}
		}
		for _, q := range op.Reqs {
			if q.Notify {
				continue
			}
			if q.Got == "" && q.GotErr == "" && op.Err != nil {
				continue // operation failed as a whole (op.Err), judged by the caller
			}
			pay := payloadOf(q.Got)
			var hit *peerReply
			defectSent := false
			// the replies the peer sent for this id (a client that uses an id again
			// once its request has ended cannot tell for which use a reply was meant)
			var cands []*peerReply
			for _, q2 := range w.byID[q.ID] {
				for i := range q2.Replies {
					cands = append(cands, &q2.Replies[i])
				}
			}
			if len(cands) == 0 {
				for i := range q.Replies {
					cands = append(cands, &q.Replies[i])
				}
			}
			for _, rep := range cands {
				if rep.Seq > op.Return {
					continue
				}
				if rep.Defect {
					// A member with a structural defect that bears this id. What the
					// client makes of it is not settled by the property: it may ignore
					// it, fail the call (with whatever code), or - where the defect
					// leaves a usable result (an unknown extra key, a wrong version
					// marker) - take that result.
					defectSent = true
					if (q.GotErr == "" && strings.Contains(q.Got, `"`+rep.Payload+`"`)) || (q.GotErr != "" && strings.Contains(q.Got+q.GotData, rep.Payload)) {
						hit = rep
					}
					continue
				}
				if rep.Payload == pay && ((q.GotErr != "") == rep.IsErr) {
					hit = rep
				}
			}
			switch {
			case hit != nil:
				if other, dup := used[hit.Payload]; dup {
					r.Fail("payload-delivered-twice", "reply payload %s was returned to both %s and %s", hit.Payload, other, q.Tag)
					return
				}
				used[hit.Payload] = q.Tag
				q.Answered = true
				if hit.Defect {
					break
				}
				if !hit.IsErr && hit.Result != "" && compactJSON(q.Got) != compactJSON(hit.Result) {
					r.Fail("foreign-payload", "request %s: result %s returned, the peer sent %s", q.Tag, preview([]byte(q.Got)), preview([]byte(hit.Result)))
					return
				}
				if hit.IsErr {
					// code and data arrive unchanged
					want := 0
					fmt.Sscanf(hit.Raw[strings.Index(hit.Raw, `"code":`)+7:], "%d", &want)
					if q.GotCode != want {
						r.Fail("foreign-payload", "request %s: error code %d returned, the peer sent %s", q.Tag, q.GotCode, hit.Raw)
						return
					}
					if q.GotData != "" && compactJSON(q.GotData) != fmt.Sprintf(`{"d":%q}`, hit.Payload) {
						r.Fail("foreign-payload", "request %s: error data %s returned, the peer sent %s", q.Tag, q.GotData, hit.Raw)
						return
					}
				}
			case q.GotErr != "" && !w.sentPayload(pay) && defectSent:
				// failed, possibly on account of the defective member (allowed, with
				// any code), possibly for a reason C05 judges: no rule is based on it
				q.MaybeDefect = true
			case q.GotErr != "" && !w.sentPayload(pay) && faulty:
				// an error made up by the client itself (context / stop): judged by the C05 oracle
			default:
				r.Fail("foreign-payload", "request %s (id %s) completed with %q (err %q), which the peer did not send for that id; replies sent for it: %+v", q.Tag, q.ID, q.Got, q.GotErr, q.Replies)
				return
			}
		}
	}
	// ids are never shared by two requests in flight (C04's clause; under C05 a
	// displaced request shows up as an operation that never returns)
	for _, id := range sortedKeys(w.byID) {
		if faulty {
			break
		}
		qs := w.byID[id]
		for i := 0; i < len(qs); i++ {
			for j := i + 1; j < len(qs); j++ {
				a, b := w.opOf(qs[i]), w.opOf(qs[j])
				// in flight: from transmission until the reply has arrived (or, with
				// no reply, until the operation returned)
				end := func(q *creq, op *cop) int {
					e := op.Return
					if e < 0 {
						e = 1 << 30
					}
					// any member bearing the id that arrives while the request is out may
					// end it (its reply; a defective member; with reused ids a late
					// duplicate meant for an earlier use)
					out := q.SentSeq // when the client passed it to Send (the peer sees it later)
					for _, o := range w.sent {
						if strings.Contains(o.Raw, `"`+q.Tag+`"`) && o.Seq < out {
							out = o.Seq
						}
					}
					for seq, ev := range w.r.Sim.Events {
						if seq >= out && seq < e && ev.Kind == "ch.recv.ret" && ev.Tag == "cli" && mentionsID(ev.S, id) {
							e = seq
						}
					}
					return e
				}
				aEnd, bEnd := end(qs[i], a), end(qs[j], b)
				if qs[i].SentSeq < bEnd && qs[j].SentSeq < aEnd {
					r.Fail("id-reused-in-flight", "requests %s (sent #%d, reply arrived or operation returned #%d) and %s (sent #%d, ended #%d) were in flight at the same time with the same id %s", qs[i].Tag, qs[i].SentSeq, aEnd, qs[j].Tag, qs[j].SentSeq, bEnd, id)
					return
				}
			}
		}
	}
}

// sentPayload reports whether the peer ever put the text pay into a record as
// a payload (for whatever id): only then can a completion "carry a peer's
// payload"; anything else is an error the client made up itself.
func (w *cliWorld) sentPayload(pay string) bool {
	if pay == "" {
		return false
	}
	for _, e := range w.r.Sim.Events {
		if e.Kind == "ch.send" && e.Tag == "peer" && strings.Contains(e.S, `"`+pay+`"`) {
			return true
		}
	}
	return false
}

func (w *cliWorld) opOf(q *creq) *cop {
	for _, op := range w.ops {
		for _, x := range op.Reqs {
			if x == q {
				return op
			}
		}
	}
	return nil
}

// finish closes the client (if the scenario has not done so) and runs to the
// final quiescent point.
func (w *cliWorld) finish() bool {
	r := w.r
	w.releaseAll = true
	if w.stoppedSeq < 0 && !w.anyCloseInvoked() {
		c := &closeAct{Invoke: -1, Return: -1}
		w.closes = append(w.closes, c)
		r.Sim.Spawn("z-close", func() { w.doClose(c) })
	}
	if !r.RunQ() {
		return false
	}
	w.qpoints = append(w.qpoints, w.seq())
	return true
}

func (w *cliWorld) anyCloseInvoked() bool {
	for _, c := range w.closes {
		if c.Invoke >= 0 {
			return true
		}
	}
	return false
}

// C04: fault-free connection, arbitrary peer ordering.
func scenarioC04(r *Run) {
	w := newCliWorld(r, cliCfg{Prop: "C04", MaxOps: 6})
	w.start()
	if !w.drive(func() { w.checkMatching(false, false) }) {
		return
	}
	w.checkMatching(false, false)
	if r.Failed() {
		return
	}
	// every request has been answered by now (all gates are open): nothing may still block
	for _, op := range w.ops {
		if !op.Done {
			r.Fail("op-never-returned", "%s %d has not returned although the peer has answered every request (%+v)", op.Kind, op.Idx, op.Reqs[0])
			return
		}
		if op.Err != nil && op.Kind == oBatch {
			// a Batch reports encoding and sending failures only; what the peer
			// sent for its entries - results, errors, defective members - comes
			// back per entry, and none of it may be lost
			r.Fail("foreign-payload", "Batch %d failed as a whole with %q on a healthy connection: the replies of its entries are lost", op.Idx, op.ErrS)
			return
		}
		if op.Err != nil {
			if _, ok := op.Err.(*jrpc2.Error); !ok && !w.defectiveSentFor(op) {
				r.Fail("foreign-payload", "%s %d failed with %q on a healthy connection", op.Kind, op.Idx, op.ErrS)
				return
			}
		}
	}
	nn := 0
	for _, n := range w.notes {
		_ = n
		nn++
	}
	if nn > 0 {
		r.Probe("server-notification-delivered")
	}
	for _, cb := range w.cbOrder {
		if cb.Exit >= 0 {
			r.Probe("server-callback-served")
		}
	}
	// records without a single member ([] and scalars): whatever the client makes
	// of them (ignore, stop), it does not crash - sent last, so that a client that
	// stops on them fails no operation of this run
	if !w.sendMemberless() {
		return
	}
	if !w.finish() {
		return
	}
	w.checkMatching(true, false)
}

// sendMemberless makes the peer send one record that is valid JSON but holds
// no message at all, and runs to quiescence.
func (w *cliWorld) sendMemberless() bool {
	if w.peerClosed || !w.r.Gen.Chance("memberless", 0.3) {
		return true
	}
	rec := []string{`[]`, `[[]]`, `null`, `17`, `[null]`, `""`, `{}`}[w.r.Gen.Int("memberlesskind", 7)]
	w.causes = append(w.causes, stopCause{Kind: "malformed", Begin: w.seq(), End: -1, Optional: true})
	w.r.Probe("memberless-record-sent")
	w.r.Sim.Spawn("p-memberless", func() {
		w.r.Ev("peer.memberless", "", 0, 0, rec)
		w.pEnd.Send([]byte(rec))
	})
	if !w.r.RunQ() {
		return false
	}
	w.qpoints = append(w.qpoints, w.seq())
	return true
}

// ---------------------------------------------------------------------------
// C05

func scenarioC05(r *Run) {
	w := newCliWorld(r, cliCfg{Prop: "C05", MaxOps: 6, Faults: true, Hooks: r.Gen.Chance("hooks", 0.8), NeverP: 0.15})
	g := r.Gen
	// stop causes: Close (possibly two concurrent ones), peer EOF, Recv failure, malformed record, Send failure
	if g.Chance("closes", 0.5) {
		n := 1 + g.Int("nclose", 2)
		for i := 0; i < n; i++ {
			w.closes = append(w.closes, &closeAct{Gate: g.Chance("closegate", 0.6), Delay: g.Int("closedelay", 80), Invoke: -1, Return: -1})
		}
	}
	if g.Chance("peereof", 0.2) {
		w.peerCloseAt = g.Int("peercloseat", 5)
	}
	if g.Chance("recvfault", 0.25) {
		w.cEnd.FaultRecvAt[g.Int("recvfaultat", 8)] = []int{fRecvErr, fRecvDataEOF, fRecvDataErr}[g.Int("recvfaultkind", 3)]
	}
	if g.Chance("sendfault", 0.25) {
		w.cEnd.FaultSendAt[g.Int("sendfaultat", 8)] = []int{fSendErrLost, fSendErrAfter}[g.Int("sendfaultkind", 2)]
	}
	if g.Chance("malformed", 0.15) {
		w.malformedAt = g.Int("malformedat", 5)
	}
	w.cEnd.CloseErr = g.Chance("closeerr", 0.12) // a channel whose Close reports an error (it is closed all the same)
	w.cEnd.StickyRecvErr = g.Chance("stickyrecverr", 0.5)
	w.cEnd.SendAfterClose = g.Chance("sendafterclose", 0.3) // Close leaves the write side usable: a stopped client must not use it
	r.applyForce(w.cEnd)
	defer func() { r.noteOps(w.cEnd) }()
	w.cEnd.OnFault = func(kind int) {
		switch kind {
		case fRecvErr, fRecvDataErr:
			// one failed Recv, like one failed Send, may or may not be the end of
			// the channel for the client (it may try again): settled by IsStopped
			w.causes = append(w.causes, stopCause{Kind: "error", Begin: w.seq(), End: -1, Optional: true})
		case fRecvErrAgain:
			// ... but a channel whose Recv has failed three times running has failed
			if w.cEnd.NRecvStuck == 2 {
				w.causes = append(w.causes, stopCause{Kind: "error", Begin: w.seq(), End: -1})
				w.r.Probe("channel-broken-for-good")
			}
		case fRecvDataEOF:
			w.causes = append(w.causes, stopCause{Kind: "eof", Begin: w.seq(), End: -1})
		case fSendErrLost, fSendErrAfter:
			// whether a failed Send ends the client is the implementation's choice
			w.causes = append(w.causes, stopCause{Kind: "error", Begin: w.seq(), End: -1, Optional: true})
		}
	}
	s := r.Sample.(map[string]any)
	s["closes"], s["peer_close_at"], s["recv_faults"], s["send_faults"], s["malformed_at"] = len(w.closes), w.peerCloseAt, fmt.Sprint(w.cEnd.FaultRecvAt), fmt.Sprint(w.cEnd.FaultSendAt), w.malformedAt
	w.start()
	if !w.drive(func() { w.settleOptionalCauses(); w.checkC05(false) }) {
		return
	}
	w.settleOptionalCauses()
	w.checkC05(false)
	if r.Failed() {
		return
	}
	if !w.sendMemberless() {
		return
	}
	w.settleOptionalCauses()
	// OnStop is the client's notice that it has stopped: when the peer hung up or
	// the channel failed (a definite cause, complete before the last-but-one
	// quiescent point) it has run by now - nobody has called Close for it
	if w.cfg.Hooks && len(w.onStop) == 0 && len(w.qpoints) >= 2 {
		for _, c := range w.causes {
			if !c.Optional && (c.Kind == "eof" || c.Kind == "error") && c.Begin < w.qpoints[len(w.qpoints)-2] {
				r.Fail("onstop-count", "the client's connection ended (%s at #%d) two quiescent points ago, yet OnStop has not run (it must not wait for somebody to call Close)", c.Kind, c.Begin)
				return
			}
		}
	}
	// operations on a stopped client fail at once and transmit nothing
	if !w.finish() {
		return
	}
	w.lateOpsProbe()
	if r.Failed() {
		return
	}
	w.checkC05(true)
}

// settleOptionalCauses (at a quiescent point): an event that may or may not end
// the client - a failed Send, an undecodable record - is looked at again one
// quiescent point later. Either the client has stopped on it (IsStopped): then
// it is a cause like any other, with every "must" that follows. Or it has not:
// then it licenses nothing beyond the fate of the operation whose own Send
// failed, which has its own rules.
func (w *cliWorld) settleOptionalCauses() {
	if len(w.qpoints) < 2 || w.cli == nil {
		return
	}
	prev := w.qpoints[len(w.qpoints)-2]
	pending := false
	for _, c := range w.causes {
		if c.Optional && c.Begin < prev {
			pending = true
		}
	}
	if !pending {
		return
	}
	stopped, asked := false, false
	w.r.Sim.Spawn(fmt.Sprintf("z-isstopped%d", len(w.qpoints)), func() {
		stopped = w.cli.IsStopped()
		asked = true
	})
	if !w.r.RunQ() || !asked {
		return // the probe itself is stuck (a lock held for good): judged elsewhere
	}
	var kept []stopCause
	for _, c := range w.causes {
		if c.Optional && c.Begin < prev {
			switch {
			case stopped && w.onlyCauseBesidesConsequences(c):
				// nothing else has happened: the client stopped on this
				c.Optional = false
				w.r.Probe("optional-cause-did-stop-the-client")
			case !stopped:
				w.r.Probe("optional-cause-survived")
				continue // the client is up: the event changed nothing, drop it
			}
		}
		kept = append(kept, c)
	}
	w.causes = kept
}

// onlyCauseBesidesConsequences: c is the only thing that has happened to the
// client, apart from what follows from the client's own stop (the peer, seeing
// the client's end closed, hangs up in turn).
func (w *cliWorld) onlyCauseBesidesConsequences(c stopCause) bool {
	for _, o := range w.causes {
		if o.Begin == c.Begin && o.Kind == c.Kind {
			continue
		}
		if o.Consequence && o.Begin > c.Begin {
			continue
		}
		return false
	}
	return true
}

func (w *cliWorld) anyDefiniteCauseBefore(seq int) bool {
	for _, c := range w.causes {
		if !c.Optional && c.Begin < seq {
			return true
		}
	}
	return false
}

func (w *cliWorld) firstCause() int {
	first := 1 << 30
	for _, c := range w.causes {
		if c.Begin < first {
			first = c.Begin
		}
	}
	return first
}

// lateOpsProbe invokes every kind of operation on the stopped client.
func (w *cliWorld) lateOpsProbe() {
	r := w.r
	before := w.peerSeen
	sendsBefore := w.cEnd.NSend - w.cEnd.NSendClosed
	var late []*cop
	for k := 0; k < 4; k++ {
		op := &cop{Idx: 100 + k, Kind: opKind(k), Invoke: -1, Return: -1, CancelSeq: -1}
		op.Reqs = []*creq{{Tag: fmt.Sprintf("late%d", k), SentSeq: -1, Notify: opKind(k) == oNotify}}
		late = append(late, op)
		r.Sim.Spawn(fmt.Sprintf("z-late%d", k), func() { w.runOp(op) })
	}
	if !r.RunQ() {
		return
	}
	for _, op := range late {
		if !op.Done {
			r.Fail("op-never-returned", "%s invoked on a stopped client has not returned", op.Kind)
			return
		}
		if op.Err == nil {
			r.Fail("wrong-outcome", "%s invoked on a stopped client succeeded", op.Kind)
			return
		}
	}
	if !w.cli.IsStopped() {
		r.Fail("wrong-outcome", "IsStopped reports false after Close has returned")
		return
	}
	// Close on a client that has already stopped returns (and closes nothing again)
	again := &closeAct{Invoke: -1, Return: -1}
	r.Sim.Spawn("z-close-again", func() { w.doClose(again) })
	if !r.RunQ() {
		return
	}
	if !again.Done {
		r.Fail("op-never-returned", "a second Close, on the stopped client, has not returned")
		return
	}
	if w.peerSeen != before || w.cEnd.NSend-w.cEnd.NSendClosed != sendsBefore {
		r.Fail("transmitted-after-stop", "operations on a stopped client transmitted %d records", w.cEnd.NSend-w.cEnd.NSendClosed-sendsBefore)
	}
}

func (w *cliWorld) checkC05(final bool) {
	r := w.r
	w.stampArrivals()
	w.checkMatching(final, true)
	if r.Failed() {
		return
	}
	lastQ := -1
	if len(w.qpoints) > 0 {
		lastQ = w.qpoints[len(w.qpoints)-1]
	}
	fc := w.firstCause()
	for _, op := range w.ops {
		if op.Invoke < 0 {
			continue
		}
		ctxEnd, ctxEndDone := 1<<30, 1<<30
		if op.CancelSeq >= 0 {
			ctxEnd, ctxEndDone = op.CancelSeq, op.CancelEnd
		}
		if !op.Done {
			reason := ""
			all := true
			for _, q := range op.Reqs {
				if q.Notify {
					continue
				}
				got := false
				for _, rep := range q.Replies {
					// (a reply to an earlier transmission of the request, under an id the
					// client has given up, answers nothing)
					if rep.Arrive >= 0 && rep.Arrive < lastQ && !rep.Defect && (rep.ForID == "" || rep.ForID == q.ID) {
						got = true
					}
				}
				if !got {
					all = false
				}
			}
			if all {
				reason = "every request of it has been answered"
			}
			if ctxEndDone < lastQ {
				reason = fmt.Sprintf("its context ended at #%d", ctxEnd)
			}
			if w.stoppedSeq >= 0 && w.stoppedSeq < lastQ {
				reason = fmt.Sprintf("the client stopped at #%d", w.stoppedSeq)
			}
			for _, c := range w.causes {
				if !c.Optional && c.Kind != "close" && c.Begin < lastQ && len(w.qpoints) > 1 && c.Begin < w.qpoints[len(w.qpoints)-2] {
					reason = fmt.Sprintf("the channel ended (%s at #%d)", c.Kind, c.Begin)
				}
			}
			if se := w.opSendFailedAt(op); se >= 0 && se < lastQ {
				reason = fmt.Sprintf("the Send that carried it reported an error (#%d)", se)
			}
			if final {
				reason = "the client has been closed"
			}
			if reason != "" && lastQ > op.Invoke {
				r.Fail("op-never-returned", "%s %d (invoked #%d) has not returned although %s (quiescent at #%d)", op.Kind, op.Idx, op.Invoke, reason, lastQ)
				return
			}
			continue
		}
		// judge the outcome of a returned operation
		stopped := fc <= op.Return
		isCtxErr := op.Err == context.Canceled || op.Err == context.DeadlineExceeded
		perReq := op.Kind == oBatch && op.Err == nil
		if op.Err != nil && !isCtxErr {
			if _, ok := op.Err.(*jrpc2.Error); ok && w.replyDelivered(op) {
				continue // an error reply from the peer, matched above
			}
			if !stopped && !w.opSendFaulted(op) && !w.defectiveSentFor(op) {
				r.Fail("wrong-outcome", "%s %d failed with %q although nothing had failed, been closed or cancelled", op.Kind, op.Idx, op.ErrS)
				return
			}
			continue
		}
		if isCtxErr {
			cancelKind := op.CtxKind == 1 || op.CtxKind == 3 || op.CtxKind == 4
			own := (cancelKind && op.Err == context.Canceled && ctxEnd <= op.Return) || ((op.CtxKind == 2 || op.CtxKind == 5) && op.Err == context.DeadlineExceeded && ctxEnd <= op.Return)
			if !own && !(op.Err == context.Canceled && stopped) {
				r.Fail("wrong-outcome", "%s %d returned %v, but its context (kind %d) had not ended and the client had not stopped", op.Kind, op.Idx, op.Err, op.CtxKind)
				return
			}
			// a reply that arrived before a quiescent point preceding the end of the context and any stop must win
			if op.Kind != oBatch && !op.ClockFired {
				if rep, qp := w.deliveredFirst(op.Reqs[0], ctxEnd, fc); rep != nil {
					r.Fail("wrong-outcome", "%s %d returned %v although reply %s had arrived at #%d, before the quiescent point #%d that precedes the end of its context (#%d)", op.Kind, op.Idx, op.Err, rep.Payload, rep.Arrive, qp, ctxEnd)
					return
				}
			}
			continue
		}
		if perReq {
			// Batch: individual responses may carry context / stop errors
			for _, q := range op.Reqs {
				if q.Notify || q.Answered || q.MaybeDefect {
					continue
				}
				// not a reply of the peer: an error response is allowed once the client
				// has stopped (any error) or the batch's context has ended (then it
				// must be that context's error)
				if q.GotErr == "" {
					r.Fail("wrong-outcome", "Batch %d: response for %s is neither a reply of the peer nor an error", op.Idx, q.Tag)
					return
				}
				// the same for each entry of a batch: a reply delivered first wins,
				// however long the batch then waits for its other entries
				if rep, qp := w.deliveredFirst(q, ctxEnd, fc); rep != nil && len(w.byID[q.ID]) == 1 && !op.ClockFired {
					r.Fail("wrong-outcome", "Batch %d: response for %s is the error %q although reply %s had arrived at #%d, before the quiescent point #%d that precedes the end of the batch's context (#%d) and any stop", op.Idx, q.Tag, q.GotErr, rep.Payload, rep.Arrive, qp, ctxEnd)
					return
				}
				if stopped || w.opSendFaulted(op) {
					continue
				}
				own := ((op.CtxKind == 1 || op.CtxKind == 3 || op.CtxKind == 4) && q.GotCode == int(jrpc2.Cancelled)) || ((op.CtxKind == 2 || op.CtxKind == 5) && q.GotCode == int(jrpc2.DeadlineExceeded))
				if !(ctxEnd <= op.Return && own) {
					r.Fail("wrong-outcome", "Batch %d: response for %s is the error %q (code %d) although the peer sent no such reply, the client had not stopped, and it is not the error of the batch's context (kind %d, ended=%v)", op.Idx, q.Tag, q.GotErr, q.GotCode, op.CtxKind, ctxEnd <= op.Return)
					return
				}
			}
		}
		// Notify has no reply to wait for: when its context had ended before it
		// was even invoked, the context ended first
		if op.Kind == oNotify && op.CtxKind == 4 && op.Err == nil {
			r.Fail("wrong-outcome", "Notify %d returned nil although its context had been cancelled (#%d) before it was invoked (#%d): want the context's error", op.Idx, op.CancelSeq, op.Invoke)
			return
		}
		// the context ended with no reply ever sent and no stop: must be the context's error
		if op.Err == nil && (op.Kind == oCall || op.Kind == oCallResult) && !op.Reqs[0].Answered {
			r.Fail("wrong-outcome", "%s %d returned success without a reply of the peer", op.Kind, op.Idx)
			return
		}
	}
	if final {
		w.checkC05Final()
	}
}

// deliveredFirst returns a reply to q that reached the client before a
// quiescent point which itself precedes the end of the operation's context and
// every stop cause (and that quiescent point): such a reply was delivered first.
func (w *cliWorld) deliveredFirst(q *creq, ctxEnd, fc int) (*peerReply, int) {
	for i := range q.Replies {
		rep := &q.Replies[i]
		if rep.Arrive < 0 || rep.Defect || (rep.ForID != "" && rep.ForID != q.ID) {
			continue
		}
		for _, qp := range w.qpoints {
			if rep.Arrive < qp && qp <= ctxEnd && qp < fc {
				return rep, qp
			}
		}
	}
	return nil, 0
}

// defectiveSentFor: the peer has sent a structurally defective member bearing
// the id of one of op's requests (the client may fail the call on its account).
func (w *cliWorld) defectiveSentFor(op *cop) bool {
	for _, q := range op.Reqs {
		for _, rep := range q.Replies {
			if rep.Defect && (op.Return < 0 || rep.Seq <= op.Return) {
				return true
			}
		}
	}
	return false
}

func (w *cliWorld) replyDelivered(op *cop) bool {
	for _, q := range op.Reqs {
		if q.Answered || q.MaybeDefect {
			return true
		}
	}
	return false
}

func (w *cliWorld) checkC05Final() {
	r := w.r
	// hooks
	if w.cfg.Hooks {
		if len(w.onStop) != 1 {
			r.Fail("onstop-count", "OnStop ran %d times (%v), want exactly once per client", len(w.onStop), w.onStop)
			return
		}
		// the reported cause must have occurred by then
		// classify the reported cause without relying on message texts: the
		// error of Close is the only one that is none of the others
		// Only errors the harness owns identify a cause: io.EOF (the peer hung
		// up), the injected channel error, a closed-channel error (the reader saw
		// its own channel closed: Close). nil says "stopped in good order" and is
		// accepted for a Close only (the property says "with the first stop cause";
		// nil for a peer that hung up hands over no cause). Whatever else the client
		// reports - its own sentinel for an orderly Close or for the peer hanging
		// up, its own description of an undecodable record - cannot be told apart
		// here and is accepted for whichever cause occurred.
		kind := "other"
		switch e := w.onStopErr[0]; {
		case e == nil:
			kind = "close"
		case errors.Is(e, io.EOF):
			kind = "eof"
		case errors.Is(e, ErrInjected):
			kind = "error"
		case errors.Is(e, net.ErrClosed) || channel.IsErrClosing(e):
			kind = "close"
		}
		same := func(causeKind string) bool {
			if kind == "other" {
				return true // an argument the harness cannot identify may stand for any cause
			}
			return causeKind == kind
		}
		ok := false
		for _, c := range w.causes {
			if same(c.Kind) && c.Begin <= w.onStopSeq[0] {
				ok = true
			}
		}
		if !ok {
			r.Fail("onstop-cause", "OnStop reported %q (%s) at #%d, but no such cause had occurred by then; causes: %+v", w.onStop[0], kind, w.onStopSeq[0], w.causes)
			return
		}
		// first cause wins when it demonstrably completed before any other began
		for i, a := range w.causes {
			if a.Optional {
				continue
			}
			if a.End < 0 {
				for _, q := range w.qpoints {
					if q > a.Begin {
						a.End = q
						break
					}
				}
			}
			if a.End < 0 {
				continue
			}
			first := true
			for j, b := range w.causes {
				if j != i && b.Begin <= a.End && !(b.Consequence && b.Begin > a.Begin) {
					first = false
				}
			}
			if first && (a.Kind == "eof" || a.Kind == "error") && w.haveCloseArg && sameErrValue(w.onStopErr[0], w.closeArg) {
				r.Fail("onstop-cause", "OnStop reported %q, which is what this client reports for an orderly Close, but the first stop cause, complete before any other began, was %s (#%d): the cause of the stop is lost", w.onStop[0], a.Kind, a.Begin)
				return
			}
			if first && !same(a.Kind) {
				r.Fail("onstop-cause", "OnStop reported %q (%s) but the first stop cause, complete before any other began, was %s: %+v", w.onStop[0], kind, a.Kind, w.causes)
				return
			}
		}
		for _, op := range w.ops {
			for _, q := range op.Reqs {
				if q.Notify || q.ID == "" || len(w.byID[q.ID]) != 1 || q.MaybeDefect {
					continue
				}
				q.Cancels = w.cancelCount[q.ID]
				ce := 1 << 30
				if op.CancelSeq >= 0 {
					ce = op.CancelSeq
				}
				if rep, qp := w.deliveredFirst(q, ce, w.firstCause()); rep != nil && q.Cancels != 0 && !op.ClockFired {
					r.Fail("oncancel-count", "OnCancel ran %d times for request %s (id %s), whose reply %s had been delivered (arrived #%d, quiescent #%d) before its context ended or the client stopped", q.Cancels, q.Tag, q.ID, rep.Payload, rep.Arrive, qp)
					return
				}
				if q.Answered && q.Cancels != 0 {
					r.Fail("oncancel-count", "OnCancel ran %d times for request %s (id %s), which was answered", q.Cancels, q.Tag, q.ID)
					return
				}
				if op.Done && !q.Answered && w.transmitted(q) && q.Cancels != 1 {
					r.Fail("oncancel-count", "OnCancel ran %d times for request %s (id %s), which was transmitted and ended without a reply (%q)", q.Cancels, q.Tag, q.ID, q.GotErr+op.ErrS)
					return
				}
			}
		}
	}
	// Close returns only after all callback handlers have returned
	for _, c := range w.closes {
		if !c.Done {
			r.Fail("op-never-returned", "Close (invoked #%d) has not returned", c.Invoke)
			return
		}
		for _, cb := range w.cbOrder {
			if cb.Enter >= 0 && (cb.Exit < 0 || cb.Exit > c.Return) {
				r.Fail("close-before-callbacks-done", "Close returned at #%d while callback handler %s (entered #%d) had not returned (exit #%d)", c.Return, cb.Tag, cb.Enter, cb.Exit)
				return
			}
		}
	}
	if w.cEnd.NClose != 1 {
		r.Fail("close-count", "the client closed its channel %d times", w.cEnd.NClose)
		return
	}
	var left []string
	for _, g := range r.Sim.Unfinished() {
		left = append(left, fmt.Sprintf("%s@%s(%s)", g.Name, g.Site, g.State()))
	}
	if len(left) > 0 {
		r.Fail("goroutine-left", "after Close returned and the peer closed: %d goroutines have not finished: %s", len(left), strings.Join(left, " "))
	}
}

// transmitted reports whether the request was registered as pending, that is
// whether its Send succeeded (the peer saw it and no send fault hit it).
func (w *cliWorld) transmitted(q *creq) bool {
	if q.SentSeq < 0 {
		return false
	}
	return !w.sendFaulted(q.Tag)
}

// sendFaulted reports whether the Send call that carried the request with this
// tag reported an injected error (the client then treats it as not sent).
func (w *cliWorld) sendFaulted(tag string) bool {
	for _, k := range w.cEnd.FaultedSends {
		if k-1 < len(w.sent) && strings.Contains(w.sent[k-1].Raw, `"`+tag+`"`) {
			return true
		}
	}
	return false
}

// opSendFailedAt returns the sequence number at which the Send call carrying
// this operation's record returned an injected error (-1: it did not).
func (w *cliWorld) opSendFailedAt(op *cop) int {
	for _, k := range w.cEnd.FaultedSends {
		if k-1 >= len(w.sent) {
			continue
		}
		mine := false
		for _, q := range op.Reqs {
			if strings.Contains(w.sent[k-1].Raw, `"`+q.Tag+`"`) {
				mine = true
			}
		}
		if !mine {
			continue
		}
		// (a client that sends the record again, successfully, has not failed)
		resent := false
		for k2 := k; k2 < len(w.sent); k2++ {
			same := false // the same requests again (possibly under fresh ids)
			for _, q := range op.Reqs {
				if strings.Contains(w.sent[k2].Raw, `"`+q.Tag+`"`) {
					same = true
				}
			}
			if same {
				ok := true
				for _, f := range w.cEnd.FaultedSends {
					if f == k2+1 {
						ok = false
					}
				}
				if ok {
					resent = true
				}
			}
		}
		if resent {
			continue
		}
		for seq, e := range w.r.Sim.Events {
			if e.Kind == "ch.send.end" && e.Tag == "cli" && e.A == k {
				return seq
			}
		}
	}
	return -1
}

// opSendFaulted: the Send of this operation's record failed.
func (w *cliWorld) opSendFaulted(op *cop) bool {
	for _, q := range op.Reqs {
		if w.sendFaulted(q.Tag) {
			return true
		}
	}
	return false
}

// C10, client side.
func scenarioC10Client(r *Run) {
	w := newCliWorld(r, cliCfg{Prop: "C10", MaxOps: 6, Faults: true, NeverP: 0.1})
	g := r.Gen
	if g.Chance("closes", 0.5) {
		w.closes = append(w.closes, &closeAct{Gate: g.Chance("closegate", 0.6), Delay: g.Int("closedelay", 80), Invoke: -1, Return: -1})
	}
	if g.Chance("recvfault", 0.15) {
		w.cEnd.FaultRecvAt[g.Int("recvfaultat", 8)] = fRecvErr
	}
	if g.Chance("sendfault", 0.2) {
		w.cEnd.FaultSendAt[g.Int("sendfaultat", 8)] = []int{fSendErrLost, fSendErrAfter}[g.Int("sendfaultkind", 2)]
	}
	if g.Chance("peereof", 0.2) {
		w.peerCloseAt = g.Int("peercloseat", 5) // the peer hangs up first
	}
	w.cEnd.CloseErr = g.Chance("closeerr", 0.1)
	w.start()
	if !w.drive(nil) {
		return
	}
	if !w.finish() {
		return
	}
	closed := false
	for _, c := range w.closes {
		if c.Done {
			closed = true
		}
	}
	// the Close count is judged once Close has returned (if it hangs, for a
	// reason that is another property's, there is nothing to count yet)
	checkDiscipline(r, w.cEnd, w.sent, closed)
}

// mentionsID: the inbound record has a member "id" with this value (as a number
// or as a string of the same digits).
func mentionsID(raw, id string) bool {
	for _, pat := range []string{`"id":` + id, `"id":"` + id + `"`, `"id": ` + id} {
		for i := strings.Index(raw, pat); i >= 0; {
			rest := raw[i+len(pat):]
			if rest == "" || !(rest[0] >= '0' && rest[0] <= '9' || rest[0] == '.') {
				return true
			}
			j := strings.Index(rest, pat)
			if j < 0 {
				break
			}
			i += len(pat) + j
		}
	}
	return false
}

// sameErrValue: two error values that cannot be told apart (the same value, or
// both nil, or equal texts of values the harness does not own).
func sameErrValue(a, b error) bool {
	if a == nil || b == nil {
		return a == nil && b == nil
	}
	if a == b {
		return true
	}
	if errors.Is(a, ErrInjected) || errors.Is(a, io.EOF) || errors.Is(b, ErrInjected) || errors.Is(b, io.EOF) {
		return false
	}
	return a.Error() == b.Error()
}
