package verifh

import (
	"fmt"

	"github.com/creachadair/jrpc2"
)

func init() {
	scenarios["C01"] = scenarioC01
	scenarios["C03"] = scenarioC03
	scenarios["C06"] = scenarioC06
	scenarios["C07"] = scenarioC07
	scenarios["C09"] = scenarioC09
}

func newSrvWorld(r *Run, cfg srvCfg) *srvWorld {
	if r.Tier == "thorough" {
		cfg.MaxMsgs += 2
		cfg.MaxBatch += 2
	}
	w := &srvWorld{r: r, cfg: cfg, byTag: map[string]*member{}}
	strat := r.drawStrategy()
	w.setup()
	w.generate()
	s := w.sample().(map[string]any)
	s["strategy"] = strat
	r.Sample = s
	return w
}

// C01: fault-free connection, unique ids, every member kind.
func scenarioC01(r *Run) {
	w := newSrvWorld(r, srvCfg{Prop: "C01", MaxMsgs: 6, MaxBatch: 4, Invalid: true, Unknown: true, RPCInfo: true, HoldP: 0.35, NoteP: 0.25, KMax: 4})
	w.start()
	if !w.drive(nil) {
		return
	}
	// final quiescent point with the connection still up
	w.stampSendEnds()
	w.checkC01()
	if r.Failed() {
		return
	}
	if !w.shutdown() {
		return
	}
	// nothing may appear on the wire after the final check either
	w.stampSendEnds()
	w.checkC01()
}

// C03: notification ordering and no head-of-line blocking by calls.
func scenarioC03(r *Run) {
	w := newSrvWorld(r, srvCfg{Prop: "C03", MaxMsgs: 6, MaxBatch: 4, Unknown: true, RPCInfo: true, Cancels: 2, Pushes: 2, Stops: 1, HoldP: 0.5, NoteP: 0.5, KMax: 4})
	w.start()
	ok := w.drive(func() {
		if why := w.progress(); why != "" {
			r.Fail("held-up-by-running-call", "at a quiescent point: %s", why)
		}
		w.probeC03()
	})
	if !ok {
		return
	}
	w.checkC03Order()
	if r.Failed() {
		return
	}
	if !w.shutdown() {
		return
	}
	w.checkC03Order()
}

func (w *srvWorld) probeC03() {
	// rare conditions worth knowing we reached
	heldNote, heldCall, waiting := false, false, false
	for _, msg := range w.msgs {
		for _, m := range msg.Members {
			if m.Holding && m.Kind == mNote {
				heldNote = true
			}
			if m.Holding && m.Kind == mCall {
				heldCall = true
			}
			if m.executable() && msg.Arrive >= 0 && m.Enter < 0 && m.Logged < 0 {
				waiting = true
			}
		}
	}
	if heldNote && waiting {
		w.r.Probe("request-parked-behind-held-notification")
	}
	if heldCall && !waiting {
		w.r.Probe("held-call-with-nothing-waiting")
	}
	if heldCall && heldNote {
		w.r.Probe("held-call-and-held-notification")
	}
}

// C06: concurrency bound and work conservation.
func scenarioC06(r *Run) {
	w := newSrvWorld(r, srvCfg{Prop: "C06", MaxMsgs: 5, MaxBatch: 6, RPCInfo: true, Cancels: 2, HoldP: 0.6, NoteP: 0.2, KMax: 4})
	var waiter []*member
	w.start()
	ok := w.drive(func() {
		if why := w.progress(); why != "" {
			r.Fail("not-work-conserving", "at a quiescent point: %s", why)
			return
		}
		if w.running == w.K {
			r.Probe("all-slots-held-at-quiescence")
		}
		// cancel-while-waiting: only when the history proves the target waits for a slot
		if w.running == w.K && r.Gen.Chance("cancelwaiter", 0.5) {
			if m := w.provenWaiter(); m != nil {
				r.Probe("cancel-hit-request-waiting-for-slot")
				waiter = append(waiter, m)
				m.Script.CancelID = "waiting"
				id := m.ID
				r.Ev("cancel.waiter", m.Tag, 0, 0, id)
				r.Sim.Spawn(fmt.Sprintf("x-cw%d", len(waiter)), func() { w.srv.CancelRequest(id) })
				// let the cancellation take effect before anything is released
				r.RunQ()
			}
		}
	})
	if !ok {
		return
	}
	w.stampSendEnds()
	replies, bad := w.assignReplies()
	for _, m := range waiter {
		if m.Enters > 0 {
			r.Fail("cancelled-waiter-ran", "call %s was cancelled while waiting for a handler slot, yet its handler ran", m.Tag)
			return
		}
		if bad != "" {
			continue
		}
		ref, ok := replies[m]
		if !ok || !ref.obj.HasErr || ref.obj.Code != int(jrpc2.Cancelled) {
			r.Fail("cancelled-waiter-wrong-reply", "call %s (id %s) was cancelled while waiting for a slot; want a request-cancelled (-32097) reply, got %+v (found=%v)", m.Tag, m.ID, ref.obj, ok)
			return
		}
	}
	w.shutdown()
}

// provenWaiter returns a call that, by the history, is blocked waiting for a
// handler slot: quiescent, all K slots held, its message arrived, no earlier
// notification unfinished, not entered, not yet cancelled.
func (w *srvWorld) provenWaiter() *member {
	w.noteArrivals()
	for _, msg := range w.msgs {
		if msg.Arrive < 0 {
			return nil
		}
		for _, m := range msg.Members {
			if m.Kind == mCall && m.Enter < 0 && m.Script.CancelID == "" {
				return m
			}
		}
		for _, m := range msg.Members {
			if m.Kind == mNote && m.Exit < 0 {
				return nil
			}
		}
	}
	return nil
}

// C07: id reuse from a small pool, CancelRequest at arbitrary points.
func scenarioC07(r *Run) {
	w := newSrvWorld(r, srvCfg{Prop: "C07", MaxMsgs: 6, MaxBatch: 3, IDPool: 3, Unknown: true, Cancels: 3, HoldP: 0.4, NoteP: 0.15, KMax: 4})
	w.start()
	if !w.drive(nil) {
		return
	}
	w.stampSendEnds()
	w.checkC07()
	if r.Failed() {
		return
	}
	w.shutdown()
}

// C09: server push. Calls of the client use ids 1,2,3,... which collide with
// the callback ids of the server.
func scenarioC09(r *Run) {
	cfg := srvCfg{Prop: "C09", MaxMsgs: 5, MaxBatch: 3, SeqIDs: true, ReplyShaped: true, Pushes: 4, Stops: 1, HoldP: 0.4, NoteP: 0.4, KMax: 3}
	cfg.ForcePush = r.Gen.Chance("forcepush", 0.85)
	w := newSrvWorld(r, cfg)
	w.start()
	ok := w.drive(func() { w.checkC09(false) })
	if !ok {
		return
	}
	w.checkC09(false)
	if r.Failed() || !w.shutdown() {
		return
	}
	w.qpoints = append(w.qpoints, w.seq())
	w.checkC09(true)
	for _, a := range w.acts {
		if a.Kind == aCallback && a.FromH != nil && a.FromH.Kind == mNote && a.Done && a.ErrV == nil {
			r.Probe("notification-handler-awaited-callback")
		}
	}
}
