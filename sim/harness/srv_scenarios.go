package verifh

import (
	"context"
	"encoding/json"
	"fmt"

	"github.com/creachadair/jrpc2"
	rt "github.com/creachadair/jrpc2/verifrt"
)

func init() {
	scenarios["C01"] = scenarioC01
	scenarios["C03"] = scenarioC03
	scenarios["C06"] = scenarioC06
	scenarios["C07"] = scenarioC07
	scenarios["C09"] = scenarioC09
}

func newSrvWorld(r *Run, cfg srvCfg) *srvWorld {
	if r.Tier == "thorough" {
		cfg.MaxMsgs += 2
		cfg.MaxBatch += 2
	}
	w := &srvWorld{r: r, cfg: cfg, byTag: map[string]*member{}, baseCancelSeq: -1}
	strat := r.drawStrategy()
	w.setup()
	w.generate()
	if w.bigK {
		// dozens of batches in flight at once: a library that keeps a timer per
		// batch legitimately takes K times the steps per clock advance
		r.Sim.MaxStep += 2000 * w.K
	}
	s := w.sample().(map[string]any)
	s["strategy"] = strat
	r.Sample = s
	return w
}

// C01: fault-free connection, unique ids, every member kind.
func scenarioC01(r *Run) {
	cfg := srvCfg{Prop: "C01", MaxMsgs: 6, MaxBatch: 4, Invalid: true, Unknown: true, RPCInfo: true, HoldP: 0.35, NoteP: 0.25, KMax: 4, Layout: true, Cancels: 2, DupIDs: true}
	if r.Gen.Chance("withpush", 0.4) {
		// server pushes interleaved with the client's calls, whose ids then count
		// from 1 like the server's callback ids
		cfg.Pushes, cfg.SeqIDs, cfg.AnswerAll, cfg.FoldReplies = 3, true, true, true
	}
	w := newSrvWorld(r, cfg)
	w.start()
	if !w.drive(nil) {
		return
	}
	// final quiescent point with the connection still up
	w.stampSendEnds()
	w.checkC01()
	if r.Failed() {
		return
	}
	if !w.shutdown() {
		return
	}
	// nothing may appear on the wire after the final check either
	w.stampSendEnds()
	w.checkC01()
}

// C03: notification ordering and no head-of-line blocking by calls.
func scenarioC03(r *Run) {
	w := newSrvWorld(r, srvCfg{Prop: "C03", MaxMsgs: 6, MaxBatch: 4, Unknown: true, RPCInfo: true, Cancels: 2, Pushes: 2, Stops: 1, HoldP: 0.5, NoteP: 0.5, KMax: 4, BigK: true})
	w.start()
	ok := w.drive(func() {
		if why := w.progress(); why != "" {
			r.Fail("held-up-by-running-call", "at a quiescent point: %s", why)
		}
		w.probeC03()
	})
	if !ok {
		return
	}
	w.checkC03Order()
	if r.Failed() {
		return
	}
	if !w.shutdown() {
		return
	}
	w.checkC03Order()
}

func (w *srvWorld) probeC03() {
	// rare conditions worth knowing we reached
	heldNote, heldCall, waiting := false, false, false
	for _, msg := range w.msgs {
		for _, m := range msg.Members {
			if m.Holding && m.Kind == mNote {
				heldNote = true
			}
			if m.Holding && m.Kind == mCall {
				heldCall = true
			}
			if m.executable() && msg.Arrive >= 0 && m.Enter < 0 && !(m.Kind == mRPCInfo && w.repliedWithResult(m.ID)) {
				waiting = true
			}
		}
	}
	if heldNote && waiting {
		w.r.Probe("request-parked-behind-held-notification")
	}
	if heldCall && !waiting {
		w.r.Probe("held-call-with-nothing-waiting")
	}
	if heldCall && heldNote {
		w.r.Probe("held-call-and-held-notification")
	}
}

// C06: concurrency bound and work conservation.
func scenarioC06(r *Run) {
	w := newSrvWorld(r, srvCfg{Prop: "C06", MaxMsgs: 5, MaxBatch: 6, RPCInfo: true, Cancels: 2, Pushes: 2, Stops: 1, EarlyCloseP: 0.15, AnswerAll: true, HoldP: 0.6, NoteP: 0.25, KMax: 4, BigK: true, BaseCtx: true})
	if r.Gen.Chance("earlyclose", 0.15) {
		// the peer goes away while handlers are held and requests are queued: the
		// limit holds for what the server still runs after that
		w.closeAfter = r.Gen.Int("closeafter", len(w.msgs)+1)
	}
	var waiter []*member
	w.start()
	ok := w.drive(func() {
		if why := w.progressOf(true); why != "" {
			r.Fail("not-work-conserving", "at a quiescent point: %s", why)
			return
		}
		if w.checkInfoOverLimit(); r.Failed() {
			return
		}
		if w.running == w.K {
			r.Probe("all-slots-held-at-quiescence")
		}
		// cancel-while-waiting: only when the history proves the target waits for a slot
		if w.running == w.K && r.Gen.Chance("cancelwaiter", 0.5) {
			if m := w.provenWaiter(); m != nil {
				r.Probe("cancel-hit-request-waiting-for-slot")
				waiter = append(waiter, m)
				m.Script.CancelID = "waiting"
				id := m.ID
				r.Ev("cancel.waiter", m.Tag, 0, 0, id)
				if w.baseCancel != nil && w.baseCancelSeq < 0 && r.Gen.Chance("cancelbybasectx", 0.5) {
					// the waiter's context ends because the base context of the
					// server does (everything else in flight is cancelled with it)
					r.Probe("base-context-ended-with-a-request-waiting-for-a-slot")
					w.baseCancelSeq = w.seq()
					r.Sim.Spawn(fmt.Sprintf("x-cw%d", len(waiter)), func() { w.baseCancel() })
				} else {
					r.Sim.Spawn(fmt.Sprintf("x-cw%d", len(waiter)), func() { w.srv.CancelRequest(id) })
				}
				// let the cancellation take effect before anything is released
				r.RunQ()
			}
		}
	})
	if !ok {
		return
	}
	w.stampSendEnds()
	replies, bad := w.assignReplies()
	for _, m := range waiter {
		if m.Enters > 0 {
			r.Fail("cancelled-waiter-ran", "call %s was cancelled while waiting for a handler slot, yet its handler ran", m.Tag)
			return
		}
		if bad != "" {
			continue
		}
		ref, ok := replies[m]
		if !ok {
			if w.stopSeq < 0 && w.running == 0 {
				// every handler has returned and the connection is up: its message
				// must have been answered by now
				r.Fail("cancelled-waiter-wrong-reply", "call %s (id %s) was cancelled while waiting for a slot and has not been answered at all, although every handler has returned and the connection is up", m.Tag, m.ID)
				return
			}
			continue // the connection ended first: nothing to judge
		}
		says := saysSomethingElse
		if !ref.obj.HasErr || says[ref.obj.Code] {
			// "a cancellation error": an error object whose code does not say
			// something else - parse error, invalid request, method not found,
			// invalid params, internal error, the catch-all system error (which
			// code does say "cancelled" the property leaves open)
			r.Fail("cancelled-waiter-wrong-reply", "call %s (id %s) was cancelled while waiting for a slot; want a cancellation error as reply, got %+v (found=%v)", m.Tag, m.ID, ref.obj, ok)
			return
		}
	}
	w.shutdown()
}

// provenWaiter returns a call that, by the history, is blocked waiting for a
// handler slot: quiescent, all K slots held, its message arrived, no earlier
// notification unfinished, not entered, not yet cancelled.
func (w *srvWorld) provenWaiter() *member {
	w.noteArrivals()
	// a message is provably dispatched when a member of it, or of a later
	// message, has started (dispatch is in arrival order)
	lastStarted := -1
	for _, msg := range w.msgs {
		for _, m := range msg.Members {
			if m.Enter >= 0 || (m.Kind == mRPCInfo && w.repliedWithResult(m.ID)) {
				lastStarted = msg.Idx
			}
		}
	}
	for _, msg := range w.msgs {
		if msg.Arrive < 0 || msg.Idx > lastStarted {
			return nil
		}
		for _, m := range msg.Members {
			if m.Kind == mCall && m.Enter < 0 && m.Script.CancelID == "" {
				return m
			}
		}
		for _, m := range msg.Members {
			if m.Kind == mNote && m.Exit < 0 {
				return nil
			}
		}
	}
	return nil
}

// C07: id reuse from a small pool, CancelRequest at arbitrary points.
func scenarioC07(r *Run) {
	w := newSrvWorld(r, srvCfg{Prop: "C07", MaxMsgs: 6, MaxBatch: 3, IDPool: 7, Invalid: true, Unknown: true, RPCInfo: true, Cancels: 3, HoldP: 0.4, NoteP: 0.15, KMax: 4, BaseCtx: true})
	w.start()
	if !w.drive(w.checkC07Prompt) {
		return
	}
	w.stampSendEnds()
	w.checkC07()
	if r.Failed() {
		return
	}
	w.shutdown()
}

// C09: server push. Calls of the client use ids 1,2,3,... which collide with
// the callback ids of the server.
func scenarioC09(r *Run) {
	cfg := srvCfg{Prop: "C09", MaxMsgs: 5, MaxBatch: 3, SeqIDs: true, ReplyShaped: true, Pushes: 4, Stops: 1, Cancels: 2, HoldP: 0.4, NoteP: 0.4, KMax: 3}
	if r.Gen.Chance("manypushes", 0.12) {
		cfg.Pushes = 12 // enough callbacks for a small id counter to wrap
	}
	cfg.ForcePush = r.Gen.Chance("forcepush", 0.85)
	w := newSrvWorld(r, cfg)
	// the connection may also end by a channel failure or by the peer going away early
	if r.Gen.Chance("recvfault", 0.2) {
		w.sEnd.FaultRecvAt[r.Gen.Int("recvfaultat", 10)] = []int{fRecvErr, fRecvDataErr}[r.Gen.Int("recvfaultkind", 2)]
	}
	if r.Gen.Chance("earlyclose", 0.15) {
		w.closeAfter = r.Gen.Int("closeafter", len(w.msgs)+1)
	}
	w.sEnd.OnFault = func(kind int) {
		if kind == fRecvErr || kind == fRecvDataErr {
			w.causes = append(w.causes, stopCause{Kind: "error", Begin: w.seq(), End: -1})
			if w.stopSeq < 0 {
				w.stopSeq = w.seq()
			}
		}
	}
	w.start()
	ok := w.drive(func() { w.checkC09(false) })
	if !ok {
		return
	}
	w.checkC09(false)
	if r.Failed() {
		return
	}
	restart := w.push && r.Gen.Chance("restartpush", 0.5)
	var rp *restartPush
	if restart {
		// the same server is started on a fresh channel as soon as WaitStatus
		// returns (callback watchers of the old connection may still be winding
		// down) and pushes calls at once
		rp = w.shutdownAndRestartPush(1 + r.Gen.Int("nrestartcb", 3))
		if rp == nil {
			return
		}
	} else {
		if !w.shutdown() {
			return
		}
		// pushes after the connection has ended, whatever ended it
		for i, kind := range []actKind{aNotify, aCallback} {
			a := &action{Kind: kind, Invoke: -1, Return: -1, CancelSeq: -1, Tag: fmt.Sprintf("late%d", i)}
			w.acts = append(w.acts, a)
			r.Sim.Spawn(fmt.Sprintf("z-late%d", i), func() { w.perform(context.Background(), a) })
		}
		if !r.RunQ() {
			return
		}
		r.Probe("push-after-connection-ended")
	}
	w.qpoints = append(w.qpoints, w.seq())
	w.checkC09(true)
	if rp != nil && !r.Failed() {
		rp.check(w)
	}
	for _, a := range w.acts {
		if a.Kind == aCallback && a.FromH != nil && a.FromH.Kind == mNote && a.Done && a.ErrV == nil {
			r.Probe("notification-handler-awaited-callback")
		}
	}
}

type restartPush struct {
	n       int
	results []string
	errs    []string
	done    []bool
	status2 *jrpc2.ServerStatus
	skipped bool
}

func (w *srvWorld) shutdownAndRestartPush(n int) *restartPush {
	r := w.r
	rp := &restartPush{n: n, results: make([]string, n), errs: make([]string, n), done: make([]bool, n)}
	sEnd2, pEnd2 := NewPipe(r, "srv2", "peer2")
	sEnd2.CloseUnblocks = w.sEnd.CloseUnblocks
	w.closeGate = true
	w.releaseAll = true
	finished := 0
	r.Sim.Spawn("w-wait", func() {
		st := w.srv.WaitStatus()
		w.status = &st
		w.waitSeq = w.seq()
		r.Ev("waitstatus", "", 0, 0, fmt.Sprintf("%+v", st))
		if w.running > 0 {
			// a handler of the old connection is still running although WaitStatus
			// has returned: that is C08's matter; whatever it does next would hit
			// the new connection, so the restart phase is not judged in this run
			rp.skipped = true
			return
		}
		w.restartSeq = w.seq()
		w.srv.Start(sEnd2)
		r.Ev("restart", "", 0, 0, "")
		for i := 0; i < n; i++ {
			i := i
			r.Sim.Spawn(fmt.Sprintf("w-rcb%d", i), func() {
				rsp, err := w.srv.Callback(context.Background(), "pushcall", map[string]string{"t": fmt.Sprintf("rp%d", i)})
				rp.errs[i] = errStr(err)
				if err == nil {
					rp.results[i] = rsp.ResultString()
				}
				rp.done[i] = true
				finished++
				r.Ev("restart.cb.return", fmt.Sprint(i), 0, 0, rp.errs[i]+rp.results[i])
			})
		}
	})
	r.Sim.Spawn("p2-peer", func() {
		for {
			b, err := pEnd2.Recv()
			if err != nil {
				return
			}
			o := &outRec{Raw: string(b)}
			parseOut(o)
			for _, ob := range o.Objs {
				if ob.Method != "" && ob.ID != "" {
					var p tagParams
					json.Unmarshal([]byte(ob.Params), &p)
					pEnd2.Send([]byte(fmt.Sprintf(`{"jsonrpc":"2.0","id":%s,"result":{"r":"reply-%s"}}`, ob.ID, p.T)))
				}
			}
		}
	})
	if !r.RunQ() {
		return nil
	}
	// the peer of the second connection goes away; the server exits
	if rp.skipped {
		return rp
	}
	r.Sim.Spawn("p2-close", func() { pEnd2.Close() })
	r.Sim.Spawn("w-wait2", func() {
		rt.Block("wait2", func() bool { return w.status != nil })
		st := w.srv.WaitStatus()
		rp.status2 = &st
	})
	if !r.RunQ() {
		return nil
	}
	return rp
}

func (rp *restartPush) check(w *srvWorld) {
	r := w.r
	if rp.skipped {
		return
	}
	if w.status == nil {
		r.Fail("callback-never-returned", "WaitStatus did not return after the peer closed")
		return
	}
	for i := 0; i < rp.n; i++ {
		want := fmt.Sprintf(`{"r":"reply-rp%d"}`, i)
		if !rp.done[i] {
			r.Fail("callback-never-returned", "after a restart on a fresh channel: Callback rp%d, which the peer answered at once, has not returned", i)
			return
		}
		if rp.errs[i] != "" || compactJSON(rp.results[i]) != want {
			r.Fail("callback-foreign-reply", "after a restart on a fresh channel: Callback rp%d returned (%q, err %q), the peer answered %s", i, rp.results[i], rp.errs[i], want)
			return
		}
	}
	r.Probe("callbacks-on-restarted-server")
	var left []string
	for _, g := range r.Sim.Unfinished() {
		if g.Lib {
			left = append(left, g.Name+"@"+g.Site+"("+g.State()+")")
		}
	}
	if len(left) > 0 {
		r.Fail("callback-never-returned", "after the restarted server exited: goroutines left: %v", left)
	}
}

// saysSomethingElse: error codes that name another condition than "cancelled"
// (a cancellation error may bear any other code).
var saysSomethingElse = map[int]bool{-32700: true, -32600: true, -32601: true, -32602: true, -32603: true, -32098: true, -32096: true, 0: true}
