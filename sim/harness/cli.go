package verifh

import (
	"context"
	"encoding/json"
	"errors"
	"fmt"
	"strings"
	"sort"
	"sync"
	"time"

	"github.com/creachadair/jrpc2"
	rt "github.com/creachadair/jrpc2/verifrt"
)

// ---------------------------------------------------------------------------
// Workload model for the client-side family (C04, C05, C10 client side): a real
// jrpc2.Client on one end of a simulated channel, a scripted raw peer on the
// other.

type opKind int

const (
	oCall opKind = iota
	oCallResult
	oBatch
	oNotify
)

func (k opKind) String() string { return [...]string{"Call", "CallResult", "Batch", "Notify"}[k] }

type creq struct {
	Tag    string
	Notify bool
	// observations
	ID       string // id the client put on the wire (learned by the peer), "" unknown / notification
	SentSeq  int    // seq at which the peer received it (-1)
	Replies  []peerReply
	Plan     int
	Opened   bool
	Got      string // payload returned to the caller ("" none)
	GotErr   string // error text returned for this request
	GotCode  int
	GotData  string
	RspID    string
	Cancels  int // OnCancel invocations for this id
	Answered bool
	MaybeDefect bool // ended with an error after a defective member bearing its id had been sent
}

type cop struct {
	Idx     int
	Kind    opKind
	Reqs    []*creq
	CtxKind int // 0 background, 1 cancelled at a quiescent point, 2 deadline, 3 cancelled by a racing task, 4 already cancelled when invoked, 5 deadline that expires at whatever moment the scheduler gives the task that fires it
	BigParams bool
	ClockFired bool // kind 2: the deadline expired at a moment the workload did not choose
	Cause   bool // created with WithCancelCause / WithTimeoutCause and a custom cause
	CancelAfter int // kind 3: scheduling steps the cancelling task waits first
	Gate    bool
	Open    bool
	Delay   int
	cancel  func()
	// observations
	Invoke, Return       int
	CancelSeq, CancelEnd int
	Done                 bool
	Returns              int
	Err                  error
	ErrS                 string
	NRsp                 int
}

type cliCfg struct {
	Prop       string
	MaxOps     int
	Faults     bool // C05: cancellation, Close, EOF, channel failures, malformed records
	Hooks      bool
	NeverP     float64 // probability that the peer never answers a request
}

type cbRec struct {
	Tag     string
	Steps   int
	Hold    bool
	WaitCtx bool // the handler returns only when its context has ended (the client stopped)
	Outcome int  // 0 value, 1 nil, 2 plain error, 3 *Error with data, 4 *Error with a reserved code, 5 a value that cannot be encoded, 6 panic
	Enter   int
	Exit    int
	Holding bool
	Release bool
	CtxErr  string
}

type cliWorld struct {
	r    *Run
	cfg  cliCfg
	cli  *jrpc2.Client
	cEnd *End
	pEnd *End

	ops    []*cop
	byTag  map[string]*creq
	byID   map[string][]*creq
	outbox []string
	nrep   int
	sent   []*outRec // records the client passed to Send

	// hooks
	notes     []string
	cbs       map[string]*cbRec
	cbOrder   []*cbRec
	withCB    bool
	withNote  bool
	onStop    []string
	onStopSeq []int
	onStopErr []error
	closeArg     error // what OnStop receives for an orderly Close (calibration client)
	haveCloseArg bool
	cancelLog []string
	cancelCount map[string]int

	// stop causes
	causes     []stopCause
	closes     []*closeAct
	peerCloseAt int  // peer closes after having seen this many records (-1 never before the end)
	peerClosed bool
	peerSawEOF bool
	closeGate  bool
	malformedAt int // the peer sends a malformed record as its n-th outbound record (-1 never)
	peerOutN   int
	qpoints    []int
	stoppedSeq int // seq after which the client is certainly stopped (Close returned / IsStopped seen true)
	peerSeen   int // records the peer has received
	lateOps    []*cop
	releaseAll bool
}

type closeAct struct {
	Gate, Open     bool
	Delay          int
	Invoke, Return int
	Err            error
	Done           bool
}

func (w *cliWorld) seq() int { return len(w.r.Sim.Events) }

func newCliWorld(r *Run, cfg cliCfg) *cliWorld {
	if r.Tier == "thorough" {
		cfg.MaxOps += 2
	}
	w := &cliWorld{r: r, cfg: cfg, byTag: map[string]*creq{}, byID: map[string][]*creq{}, cbs: map[string]*cbRec{}, cancelCount: map[string]int{}, peerCloseAt: -1, malformedAt: -1, stoppedSeq: -1}
	strat := r.drawStrategy()
	g := r.Gen
	w.cEnd, w.pEnd = NewPipe(r, "cli", "peer")
	w.cEnd.CloseUnblocks = g.Chance("closeunblocks", 0.5)
	w.cEnd.OnSend = func(e *End, rec []byte) {
		o := &outRec{Seq: w.seq(), Raw: string(rec)}
		parseOut(o)
		w.sent = append(w.sent, o)
	}
	w.withCB = g.Chance("oncallback", 0.7)
	w.withNote = g.Chance("onnotify", 0.7)
	n := 1 + g.Int("nops", cfg.MaxOps)
	for i := 0; i < n; i++ {
		op := &cop{Idx: i, Invoke: -1, Return: -1, CancelSeq: -1}
		op.Kind = opKind(g.Weighted("opkind", []int{5, 2, 3, 2}))
		nreq := 1
		if op.Kind == oBatch {
			nreq = 1 + g.Int("nspecs", 4)
		}
		for j := 0; j < nreq; j++ {
			q := &creq{Tag: fmt.Sprintf("o%d.%d", i, j), SentSeq: -1}
			q.Notify = op.Kind == oNotify || (op.Kind == oBatch && g.Chance("specnote", 0.3))
			op.Reqs = append(op.Reqs, q)
			w.byTag[q.Tag] = q
		}
		if cfg.Faults {
			op.CtxKind = g.Weighted("opctx", []int{5, 3, 2, 2, 1, 2})
			op.Cause = g.Chance("ctxcause", 0.3)
			op.CancelAfter = g.Int("cancelafter", 40)
		}
		op.Gate = g.Chance("opgate", 0.4)
		op.Delay = g.Int("opdelay", 20)
		op.BigParams = g.Chance("bigparams", 0.03) // a request far larger than any buffer
		w.ops = append(w.ops, op)
	}
	var ops []string
	for _, op := range w.ops {
		var rs []string
		for _, q := range op.Reqs {
			s := q.Tag
			if q.Notify {
				s += "(notify)"
			}
			rs = append(rs, s)
		}
		ops = append(ops, fmt.Sprintf("%s[%s] ctx=%d gate=%v", op.Kind, strings.Join(rs, ","), op.CtxKind, op.Gate))
	}
	r.Sample = map[string]any{"strategy": strat, "ops": ops, "on_callback": w.withCB, "on_notify": w.withNote, "close_unblocks_recv": w.cEnd.CloseUnblocks}
	return w
}

// ---------------------------------------------------------------------------
// client side

func (w *cliWorld) options() *jrpc2.ClientOptions {
	o := &jrpc2.ClientOptions{}
	if w.r.Gen.Chance("clilogger", 0.3) {
		o.Logger = func(string) { rt.Yield("log") }
	}
	if w.withNote {
		o.OnNotify = func(req *jrpc2.Request) {
			var p tagParams
			req.UnmarshalParams(&p)
			w.notes = append(w.notes, p.T)
			w.r.Ev("c.onnotify", p.T, 0, 0, "")
		}
	}
	if w.withCB {
		o.OnCallback = w.onCallback
	}
	if w.cfg.Hooks {
		// the hooks are handed the client: in some runs they use it (a hook that
		// is run with the client's lock held never returns then)
		use := w.r.Gen.Chance("hooksuseclient", 0.4)
		o.OnCancel = func(c *jrpc2.Client, rsp *jrpc2.Response) {
			w.cancelLog = append(w.cancelLog, rsp.ID())
			w.r.Ev("c.oncancel", rsp.ID(), 0, 0, "")
			w.cancelCount[rsp.ID()]++
			if use {
				c.IsStopped()
				w.r.Ev("c.oncancel.used", rsp.ID(), 0, 0, "")
			}
		}
		o.OnStop = func(c *jrpc2.Client, err error) {
			w.onStop = append(w.onStop, errStr(err))
			w.onStopErr = append(w.onStopErr, err)
			w.onStopSeq = append(w.onStopSeq, w.seq())
			w.r.Ev("c.onstop", "", 0, 0, errStr(err))
			if use {
				c.IsStopped()
				w.r.Ev("c.onstop.used", "", 0, 0, "")
			}
		}
	}
	return o
}

func (w *cliWorld) onCallback(ctx context.Context, req *jrpc2.Request) (any, error) {
	var p tagParams
	req.UnmarshalParams(&p)
	cb := w.cbs[p.T]
	if cb == nil {
		return "cb-unknown", nil
	}
	cb.Enter = w.seq()
	w.r.Ev("c.cb.enter", cb.Tag, 0, 0, "")
	for i := 0; i < cb.Steps; i++ {
		rt.Yield("cb:step")
	}
	if cb.WaitCtx {
		rt.Block("cb:ctx", func() bool { return ctx.Err() != nil })
	} else if cb.Hold {
		cb.Holding = true
		rt.Block("cb:hold", func() bool { return cb.Release || w.releaseAll })
		cb.Holding = false
	}
	if err := ctx.Err(); err != nil {
		cb.CtxErr = err.Error()
	}
	cb.Exit = w.seq()
	w.r.Ev("c.cb.exit", cb.Tag, 0, 0, cb.CtxErr)
	switch cb.Outcome {
	case 1:
		return nil, nil
	case 2:
		return nil, errors.New("callback refused: " + cb.Tag)
	case 3:
		return nil, jrpc2.Errorf(4711, "refused %s", cb.Tag).WithData(map[string]string{"cb": cb.Tag})
	case 4:
		return nil, &jrpc2.Error{Code: jrpc2.InvalidParams, Message: "bad params " + cb.Tag}
	case 5:
		return map[string]any{"cb": cb.Tag, "f": func() {}}, nil // cannot be encoded
	case 6:
		panic("callback handler " + cb.Tag + " gives up")
	}
	return map[string]string{"cb": cb.Tag}, nil
}

func (w *cliWorld) opTask(op *cop) {
	if op.Gate {
		rt.Block("op:gate", func() bool { return op.Open })
	} else {
		for i := 0; i < op.Delay; i++ {
			rt.Yield("op:delay")
		}
	}
	w.runOp(op)
}

func (w *cliWorld) runOp(op *cop) {
	ctx := context.Background()
	custom := errors.New("custom cause: the user pressed stop")
	switch op.CtxKind {
	case 1, 3, 4:
		if op.Cause {
			var cc context.CancelCauseFunc
			ctx, cc = context.WithCancelCause(ctx)
			op.cancel = func() { cc(custom) }
		} else {
			ctx, op.cancel = context.WithCancel(ctx)
		}
	case 2:
		var c context.CancelFunc
		if op.Cause {
			ctx, c = context.WithTimeoutCause(ctx, time.Minute, custom)
		} else {
			ctx, c = context.WithTimeout(ctx, time.Minute)
		}
		defer c()
	}
	if op.CtxKind == 5 {
		// a deadline that is not tied to quiescent points: the context is the
		// harness's own, and a racing task makes it expire
		sc := newSimCtx()
		ctx = sc
		w.r.Sim.Spawn(fmt.Sprintf("x-deadline%d", op.Idx), func() {
			for i := 0; i < op.CancelAfter; i++ {
				rt.Yield("deadline:delay")
			}
			if op.Done {
				return
			}
			op.CancelSeq = w.seq()
			w.r.Ev("ctx.deadline", fmt.Sprint(op.Idx), 0, 0, "")
			sc.expire()
			op.CancelEnd = w.seq()
		})
	}
	switch op.CtxKind {
	case 4:
		// the context is over before the operation starts
		op.CancelSeq = w.seq()
		op.cancel()
		op.CancelEnd = w.seq()
	case 3:
		// cancelled by another goroutine at whatever moment the scheduler gives it
		w.r.Sim.Spawn(fmt.Sprintf("x-cancel%d", op.Idx), func() {
			for i := 0; i < op.CancelAfter; i++ {
				rt.Yield("cancel:delay")
			}
			if op.Done {
				return
			}
			op.CancelSeq = w.seq()
			w.r.Ev("ctx.cancel", fmt.Sprint(op.Idx), 0, 0, "")
			op.cancel()
			op.CancelEnd = w.seq()
		})
	}
	op.Invoke = w.seq()
	w.r.Ev("op.invoke", fmt.Sprint(op.Kind, op.Idx), 0, 0, "")
	params := func(q *creq) any {
		if op.BigParams {
			return map[string]string{"t": q.Tag, "pad": strings.Repeat("q", 70000)}
		}
		return map[string]string{"t": q.Tag}
	}
	record := func(q *creq, rsp *jrpc2.Response, err error) {
		if rsp != nil {
			q.RspID = rsp.ID()
			if e := rsp.Error(); e != nil {
				q.GotErr, q.GotCode, q.Got, q.GotData = e.Message, int(e.Code), e.Message, string(e.Data)
			} else {
				q.Got = rsp.ResultString()
			}
		} else if err != nil {
			q.GotErr = err.Error()
			if e, ok := err.(*jrpc2.Error); ok {
				q.GotCode, q.Got, q.GotData = int(e.Code), e.Message, string(e.Data)
			}
		}
	}
	switch op.Kind {
	case oCall:
		rsp, err := w.cli.Call(ctx, "m", params(op.Reqs[0]))
		op.Err = err
		record(op.Reqs[0], rsp, err)
	case oCallResult:
		var raw json.RawMessage
		err := w.cli.CallResult(ctx, "m", params(op.Reqs[0]), &raw)
		op.Err = err
		if err == nil {
			op.Reqs[0].Got = string(raw)
		} else {
			record(op.Reqs[0], nil, err)
		}
	case oNotify:
		op.Err = w.cli.Notify(ctx, "m", params(op.Reqs[0]))
	case oBatch:
		var specs []jrpc2.Spec
		for _, q := range op.Reqs {
			specs = append(specs, jrpc2.Spec{Method: "m", Params: params(q), Notify: q.Notify})
		}
		rsps, err := w.cli.Batch(ctx, specs)
		op.Err = err
		op.NRsp = len(rsps)
		i := 0
		for _, q := range op.Reqs {
			if q.Notify {
				continue
			}
			if i < len(rsps) {
				record(q, rsps[i], nil)
			}
			i++
		}
	}
	op.ErrS = errStr(op.Err)
	op.Returns++
	if op.CtxKind == 2 && op.CancelSeq < 0 && ctx.Err() != nil {
		// the deadline passed on the fake clock without the workload's doing (the
		// clock also moves for timers of the library): when exactly is not known
		op.ClockFired = true
		op.CancelSeq, op.CancelEnd = w.seq(), w.seq()
	}
	op.Return = w.seq()
	op.Done = true
	w.r.Ev("op.return", fmt.Sprint(op.Kind, op.Idx), 0, 0, op.ErrS)
}

// ---------------------------------------------------------------------------
// scripted peer

func (w *cliWorld) peerReceiver() {
	for {
		b, err := w.pEnd.Recv()
		if err != nil {
			w.r.Ev("peer.eof", "", 0, 0, err.Error())
			// the peer closes its end after seeing EOF (the property's assumption)
			w.closeGate = true
			w.peerSawEOF = true
			return
		}
		w.peerSeen++
		w.peerSaw(string(b))
		if w.peerCloseAt >= 0 && w.peerSeen >= w.peerCloseAt {
			w.closeGate = true
		}
	}
}

func (w *cliWorld) peerSaw(raw string) {
	o := &outRec{Raw: raw}
	parseOut(o)
	g := w.r.Sch
	for _, ob := range o.Objs {
		if ob.Method == "" {
			continue // the client's answer to one of the peer's callbacks
		}
		var p tagParams
		json.Unmarshal([]byte(ob.Params), &p)
		q := w.byTag[p.T]
		if q == nil {
			continue
		}
		q.SentSeq = w.seq()
		q.ID = ob.ID
		if ob.ID == "" {
			continue
		}
		w.byID[ob.ID] = append(w.byID[ob.ID], q)
		never := 0
		if w.cfg.NeverP > 0 {
			never = int(w.cfg.NeverP * 20)
		}
		// 0 now, 1 at a gate, 2 now + a duplicate later, 3 defective member now, 4 never
		q.Plan = g.Weighted("replyplan", []int{8, 5, 2, 2, never})
		switch q.Plan {
		case 0:
			w.queueReply(q)
		case 2:
			w.queueReply(q)
			if g.Chance("dupnow", 0.6) {
				// the duplicates travel together: same array, or racing deliveries
				w.queueReply(q)
				if g.Chance("dupthird", 0.4) {
					w.queueReply(q)
				}
				q.Opened = true
			}
		case 3:
			w.queueDefective(q)
			if g.Chance("validnow", 0.4) {
				w.queueReply(q)
				q.Opened = true
			}
		}
		// interleave server-initiated traffic and replies for ids nobody uses
		switch g.Weighted("extra", []int{12, 2, 2, 2, 3}) {
		case 4:
			// records a sloppy or hostile peer may send: none of them answers a request
			w.nrep++
			odd := []string{
				`[17]`,
				`{"jsonrpc":"2.0","id":null,"result":{"r":"nullid%d"}}`,
				`{"jsonrpc":"2.0","result":{"r":"noid%d"}}`,
				`{"jsonrpc":"2.0","id":"` + ob.ID + `","result":{"r":"stringified%d"}}`,
				`{"jsonrpc":"2.0","id":[` + ob.ID + `],"result":{"r":"arrayid%d"}}`,
				`"just a string"`,
				`{"jsonrpc":"2.0","id":` + ob.ID + `0000,"error":{"code":1,"message":"otherid%d"}}`,
			}[g.Int("oddrecord", 7)]
			if strings.Contains(odd, "%d") {
				odd = fmt.Sprintf(odd, w.nrep)
			}
			w.outbox = append(w.outbox, odd)
		case 1:
			w.nrep++
			w.outbox = append(w.outbox, fmt.Sprintf(`{"jsonrpc":"2.0","id":%d,"result":{"r":"unknown%d"}}`, 900000+w.nrep, w.nrep))
		case 2:
			w.nrep++
			w.outbox = append(w.outbox, fmt.Sprintf(`{"jsonrpc":"2.0","method":"srvnote","params":{"t":"n%d"}}`, w.nrep))
		case 3:
			if g.Chance("malformedcallback", 0.3) {
				// a server-initiated request with one structural defect
				w.nrep++
				w.outbox = append(w.outbox, []string{
					`{"jsonrpc":"2.0","id":"bad%d","method":"srvcall","params":5}`,
					`{"jsonrpc":"1.0","id":"bad%d","method":"srvcall","params":{"t":"x"}}`,
					`{"jsonrpc":"2.0","id":"bad%d","method":"srvcall","params":{"t":"x"},"extra%d":true}`,
				}[g.Int("badcallback", 3)])
				w.outbox[len(w.outbox)-1] = strings.ReplaceAll(w.outbox[len(w.outbox)-1], "%d", fmt.Sprint(w.nrep))
				break
			}
			w.nrep++
			tag := fmt.Sprintf("cb%d", w.nrep)
			cb := &cbRec{Tag: tag, Steps: g.Int("cbsteps", 3), Hold: g.Chance("cbhold", 0.3), Enter: -1, Exit: -1}
			cb.WaitCtx = w.cfg.Faults && g.Chance("cbwaitctx", 0.2)
			cb.Outcome = g.Weighted("cboutcome", []int{6, 1, 1, 1, 1, 1, 1})
			w.cbs[tag] = cb
			w.cbOrder = append(w.cbOrder, cb)
			cbid := `"` + tag + `"`
			if ob.ID != "" && g.Chance("cbidcollides", 0.3) {
				// the server numbers its calls as it likes: the id of its request may
				// equal the id of a call of the client that is outstanding right now
				cbid = ob.ID
				w.r.Probe("callback-id-equals-pending-call-id")
			}
			w.outbox = append(w.outbox, fmt.Sprintf(`{"jsonrpc":"2.0","id":%s,"method":"srvcall","params":{"t":"%s"}}`, cbid, tag))
		}
	}
}

func (w *cliWorld) queueReply(q *creq) {
	w.nrep++
	pay := fmt.Sprintf("r%d", w.nrep)
	rep := peerReply{Seq: w.seq(), Arrive: -1, Payload: pay, ForID: q.ID}
	switch w.r.Sch.Weighted("replykind", []int{6, 3}) {
	case 1:
		rep.IsErr = true
		rep.Raw = fmt.Sprintf(`{"jsonrpc":"2.0","id":%s,"error":{"code":%d,"message":"%s","data":{"d":"%s"}}}`, q.ID, 9000+w.nrep, pay, pay)
	default:
		// results of every JSON shape, with escapes, nesting, and far larger than any buffer
		switch w.r.Sch.Weighted("resultshape", []int{24, 8, 4, 4, 1}) {
		case 1:
			rep.Result = fmt.Sprintf(`{"r":"%s","n":[1,2.5,{"x":null,"y":[true,false]}],"s":"\u00e9\"q\\ \n","e":{}}`, pay)
		case 2:
			rep.Result = fmt.Sprintf(`["%s",17,null,{"k":"v"}]`, pay)
		case 3:
			rep.Result = fmt.Sprintf(`"%s"`, pay)
		case 4:
			rep.Result = fmt.Sprintf(`{"r":"%s","pad":"%s"}`, pay, strings.Repeat("z", 70000+w.r.Sch.Int("padlen", 60000)))
		default:
			rep.Result = fmt.Sprintf(`{"r":"%s"}`, pay)
		}
		rep.Raw = fmt.Sprintf(`{"jsonrpc":"2.0","id":%s,"result":%s}`, q.ID, rep.Result)
	}
	q.Replies = append(q.Replies, rep)
	w.outbox = append(w.outbox, rep.Raw)
}

// queueDefective answers q with a member that has exactly one defect but a
// resolvable id: the call may complete only with an InvalidRequest/ParseError.
func (w *cliWorld) queueDefective(q *creq) {
	w.nrep++
	pay := fmt.Sprintf("bad%d", w.nrep)
	rep := peerReply{Seq: w.seq(), Arrive: -1, Payload: pay, IsErr: true, ForID: q.ID}
	switch w.r.Sch.Int("defectkind", 3) {
	case 0:
		rep.Raw = fmt.Sprintf(`{"jsonrpc":"1.0","id":%s,"result":{"r":"%s"}}`, q.ID, pay)
	case 1:
		rep.Raw = fmt.Sprintf(`{"jsonrpc":"2.0","id":%s,"result":{"r":"%s"},"x%s":1}`, q.ID, pay, pay)
	default:
		rep.Raw = fmt.Sprintf(`{"jsonrpc":"2.0","id":%s,"error":"%s"}`, q.ID, pay)
	}
	rep.Defect = true
	q.Replies = append(q.Replies, rep)
	w.outbox = append(w.outbox, rep.Raw)
}

func (w *cliWorld) peerSender() {
	g := w.r.Sch
	for {
		rt.Block("peer:next", func() bool { return len(w.outbox) > 0 || w.closeGate })
		if len(w.outbox) == 0 {
			w.peerClosed = true
			// (hanging up because the client's end was seen closed is a consequence
			// of the client's stop, not a cause of its own)
			w.causes = append(w.causes, stopCause{Kind: "eof", Begin: w.seq(), End: -1, Consequence: w.peerSawEOF && w.peerCloseAt < 0})
			w.pEnd.Close()
			return
		}
		if w.malformedAt >= 0 && w.peerOutN == w.malformedAt {
			w.peerOutN++
			// an undecodable record may, but need not, end the client (C05 names
			// "closed" and "channel failed" as the ends; garbage is neither)
			w.causes = append(w.causes, stopCause{Kind: "malformed", Begin: w.seq(), End: -1, Optional: true})
			w.r.Fault("malformed-inbound-record")
			w.pEnd.Send([]byte(`{"jsonrpc":"2.0","id":1,"result":`))
			continue
		}
		// take 1..3 pending items in any order, as one object or one array
		n := 1 + g.Int("group", min(len(w.outbox), 3))
		var parts []string
		for i := 0; i < n; i++ {
			k := g.Int("pick", len(w.outbox))
			parts = append(parts, w.outbox[k])
			w.outbox = append(w.outbox[:k], w.outbox[k+1:]...)
		}
		raw := parts[0]
		if n > 1 || g.Chance("array1", 0.2) {
			raw = "[" + strings.Join(parts, ",") + "]"
		}
		w.peerOutN++
		w.pEnd.Send([]byte(raw))
	}
}

// ---------------------------------------------------------------------------
// driver

func (w *cliWorld) start() {
	r := w.r
	calibrate := w.cfg.Hooks && r.Gen.Chance("calibrateclose", 0.35)
	r.Sim.Spawn("a-main", func() {
		if calibrate {
			// What does this build hand to OnStop for an orderly Close? A throw-away
			// client on a channel of its own is closed at once to find out (the value
			// must then not be what OnStop reports for a failed channel).
			ce, pe := NewPipe(r, "cal", "calpeer")
			ce.CloseUnblocks = true
			cal := jrpc2.NewClient(ce, &jrpc2.ClientOptions{OnStop: func(_ *jrpc2.Client, err error) {
				w.closeArg, w.haveCloseArg = err, true
			}})
			cal.Close()
			pe.Close()
		}
		w.cli = jrpc2.NewClient(w.cEnd, w.options())
	})
	r.Sim.Spawn("p-recv", w.peerReceiver)
	r.Sim.Spawn("p-send", w.peerSender)
	for i, op := range w.ops {
		op := op
		r.Sim.Spawn(fmt.Sprintf("x-op%d", i), func() {
			rt.Block("op:client", func() bool { return w.cli != nil })
			w.opTask(op)
		})
	}
	for i, c := range w.closes {
		c := c
		r.Sim.Spawn(fmt.Sprintf("y-close%d", i), func() {
			rt.Block("close:client", func() bool { return w.cli != nil })
			if c.Gate {
				rt.Block("close:gate", func() bool { return c.Open })
			} else {
				for i := 0; i < c.Delay; i++ {
					rt.Yield("close:delay")
				}
			}
			w.doClose(c)
		})
	}
}

func (w *cliWorld) doClose(c *closeAct) {
	c.Invoke = w.seq()
	w.causes = append(w.causes, stopCause{Kind: "close", Begin: c.Invoke, End: -1})
	ci := len(w.causes) - 1
	w.r.Ev("close.invoke", "", 0, 0, "")
	c.Err = w.cli.Close()
	c.Return = w.seq()
	c.Done = true
	w.causes[ci].End = c.Return
	if w.stoppedSeq < 0 {
		w.stoppedSeq = c.Return
	}
	w.r.Ev("close.return", "", 0, 0, errStr(c.Err))
}

type cgate struct {
	op     *cop
	q      *creq
	cancel *cop
	clock  bool
	cb     *cbRec
	cl     *closeAct
}

func (w *cliWorld) closedGates() []cgate {
	var gs []cgate
	for _, op := range w.ops {
		if op.Gate && !op.Open {
			gs = append(gs, cgate{op: op})
		}
		if op.CtxKind == 1 && op.cancel != nil && op.CancelSeq < 0 && !op.Done {
			gs = append(gs, cgate{cancel: op})
		}
		for _, q := range op.Reqs {
			// plan 3: the defective member is followed, later, by a valid reply, so
			// that an implementation that ignores defective members also completes
			if (q.Plan == 1 || q.Plan == 2 || q.Plan == 3) && q.SentSeq >= 0 && !q.Opened {
				gs = append(gs, cgate{q: q})
			}
		}
	}
	for _, op := range w.ops {
		if op.CtxKind == 2 && op.Invoke >= 0 && op.CancelSeq < 0 && !op.Done {
			gs = append(gs, cgate{clock: true})
			break
		}
	}
	for _, cb := range w.cbOrder {
		if cb.Holding && !cb.Release {
			gs = append(gs, cgate{cb: cb})
		}
	}
	for _, c := range w.closes {
		if c.Gate && !c.Open {
			gs = append(gs, cgate{cl: c})
		}
	}
	return gs
}

func (w *cliWorld) open(g cgate) {
	switch {
	case g.op != nil:
		g.op.Open = true
		w.r.Ev("gate.op", fmt.Sprint(g.op.Idx), 0, 0, "")
	case g.cancel != nil:
		op := g.cancel
		op.CancelSeq = w.seq()
		w.r.Ev("gate.ctxcancel", fmt.Sprint(op.Idx), 0, 0, "")
		op.cancel()
		op.CancelEnd = w.seq()
	case g.q != nil:
		g.q.Opened = true
		w.r.Ev("gate.reply", g.q.Tag, 0, 0, "")
		w.queueReply(g.q)
	case g.clock:
		w.r.Ev("gate.clock", "", 0, 0, "+61s")
		for _, op := range w.ops {
			if op.CtxKind == 2 && op.Invoke >= 0 && op.CancelSeq < 0 && !op.Done {
				op.CancelSeq = w.seq()
			}
		}
		w.r.Sim.Advance(61 * time.Second)
		for _, op := range w.ops {
			if op.CtxKind == 2 && op.CancelSeq >= 0 && op.CancelEnd == 0 {
				op.CancelEnd = w.seq()
			}
		}
		w.r.Probe("deadline-fired-on-fake-clock")
	case g.cb != nil:
		g.cb.Release = true
	case g.cl != nil:
		g.cl.Open = true
	}
}

func (w *cliWorld) drive(atQ func()) bool {
	r := w.r
	for {
		if !r.RunQ() {
			return false
		}
		w.qpoints = append(w.qpoints, w.seq())
		r.Ev("quiescent", "", len(w.qpoints), 0, "")
		if atQ != nil {
			atQ()
			if r.Failed() {
				return false
			}
		}
		gs := w.closedGates()
		if len(gs) == 0 {
			return true
		}
		n := 1 + r.Gen.Weighted("ngates", []int{6, 3, 1})
		for i := 0; i < n && len(gs) > 0; i++ {
			k := r.Gen.Int("gate", len(gs))
			w.open(gs[k])
			gs = append(gs[:k], gs[k+1:]...)
		}
	}
}

// stampArrivals records when each peer reply reached the client.
func (w *cliWorld) stampArrivals() {
	arr := map[string]int{}
	for seq, e := range w.r.Sim.Events {
		if e.Kind == "ch.recv.ret" && e.Tag == "cli" {
			raw := e.S
			if i := strings.LastIndex(raw, "|"); i >= 0 {
				raw = raw[:i]
			}
			// a record may carry several replies
			for _, op := range w.ops {
				for _, q := range op.Reqs {
					for i := range q.Replies {
						if q.Replies[i].Arrive < 0 && strings.Contains(raw, q.Replies[i].Raw) {
							q.Replies[i].Arrive = seq
						}
					}
				}
			}
			_ = arr
		}
	}
}

// simCtx is a context with a deadline that expires when the harness says so
// (not at a quiescent point of the fake clock). It implements the AfterFunc
// method the context package looks for, so derived contexts are cancelled
// synchronously by the task that calls expire and no goroutine outside the
// simulator's control is involved.
type simCtx struct {
	mu   sync.Mutex
	done chan struct{}
	err  error
	dl   time.Time
	fns  map[int]func()
	n    int
}

func newSimCtx() *simCtx {
	return &simCtx{done: make(chan struct{}), dl: time.Now().Add(time.Minute), fns: map[int]func(){}}
}

// (No deadline is advertised: the expiry is the racing task's doing, not the
// clock's, and code that watches an advertised deadline by itself would find it
// passed on the fake clock while this context still says it has not ended.)
func (c *simCtx) Deadline() (time.Time, bool) { return time.Time{}, false }
func (c *simCtx) Done() <-chan struct{}       { return c.done }
func (c *simCtx) Value(any) any               { return nil }
func (c *simCtx) Err() error {
	c.mu.Lock()
	defer c.mu.Unlock()
	return c.err
}

func (c *simCtx) AfterFunc(f func()) (stop func() bool) {
	c.mu.Lock()
	if c.err != nil {
		c.mu.Unlock()
		f()
		return func() bool { return false }
	}
	c.n++
	k := c.n
	c.fns[k] = f
	c.mu.Unlock()
	return func() bool {
		c.mu.Lock()
		defer c.mu.Unlock()
		_, ok := c.fns[k]
		delete(c.fns, k)
		return ok
	}
}

func (c *simCtx) expire() {
	c.mu.Lock()
	if c.err != nil {
		c.mu.Unlock()
		return
	}
	c.err = context.DeadlineExceeded
	close(c.done)
	var ks []int
	for k := range c.fns {
		ks = append(ks, k)
	}
	sort.Ints(ks)
	var fs []func()
	for _, k := range ks {
		fs = append(fs, c.fns[k])
	}
	c.fns = map[int]func(){}
	c.mu.Unlock()
	for _, f := range fs {
		f()
	}
}
