package verifh

import (
	"github.com/creachadair/jrpc2"
)

func init() { scenarios["C10"] = scenarioC10 }

// C10: channel discipline. Mixed workloads on a server-side or a client-side
// channel; the simulated channel counts overlapping operations.
func scenarioC10(r *Run) {
	if cliScenarioC10 != nil && r.Gen.Chance("clientside", 0.4) {
		cliScenarioC10(r)
		return
	}
	cfg := srvCfg{Prop: "C10", MaxMsgs: 6, MaxBatch: 4, Invalid: true, Unknown: true, RPCInfo: true, ReplyShaped: true, Pushes: 4, Stops: 1,
		Cancels: 2, HoldP: 0.3, NoteP: 0.3, KMax: 4}
	w := newSrvWorld(r, cfg)
	if r.Gen.Chance("recvfault", 0.15) {
		w.sEnd.FaultRecvAt[r.Gen.Int("recvfaultat", 12)] = fRecvErr
	}
	if r.Gen.Chance("sendfault", 0.2) {
		w.sEnd.FaultSendAt[r.Gen.Int("sendfaultat", 10)] = []int{fSendErrLost, fSendErrAfter}[r.Gen.Int("sendfaultkind", 2)]
	}
	w.sEnd.CloseErr = r.Gen.Chance("closeerr", 0.1)
	w.start()
	if !w.drive(nil) {
		return
	}
	if !w.shutdown() {
		return
	}
	checkDiscipline(r, w.sEnd, w.out, w.status != nil)
	if r.Failed() || w.status == nil || !r.Gen.Chance("secondlife", 0.4) {
		return
	}
	// "per Start": the same server runs a second life on a fresh channel; its
	// channel is closed exactly once too, and the first one is not touched again.
	sEnd2, pEnd2 := NewPipe(r, "srv2", "peer2")
	var out2 []*outRec
	sEnd2.OnSend = func(e *End, rec []byte) {
		o := &outRec{Seq: len(r.Sim.Events), Raw: string(rec)}
		parseOut(o)
		out2 = append(out2, o)
	}
	sEnd2.CloseUnblocks = w.sEnd.CloseUnblocks
	n1 := w.sEnd.NClose
	endKind := r.Gen.Int("secondend", 3)
	var st2 *jrpc2.ServerStatus
	nrep := 0
	r.Sim.Spawn("s2-start", func() {
		w.srv.Start(sEnd2)
		s := w.srv.WaitStatus()
		st2 = &s
	})
	r.Sim.Spawn("s2-peer", func() {
		pEnd2.Send([]byte(`[{"jsonrpc":"2.0","id":7001,"method":"h","params":{"t":"second"}},{"jsonrpc":"2.0","method":"h","params":{"t":"secondnote"}}]`))
		if _, err := pEnd2.Recv(); err == nil {
			nrep++
		}
		switch endKind {
		case 1:
			w.srv.Stop()
		case 2:
			sEnd2.Kick()
		}
		pEnd2.Close()
		for {
			if _, err := pEnd2.Recv(); err != nil {
				return
			}
			nrep++
		}
	})
	if !r.RunQ() {
		return
	}
	if st2 == nil {
		r.Inconclusive("second-life-did-not-end") // judged by C08
		return
	}
	checkDiscipline(r, sEnd2, out2, true)
	if !r.Failed() && w.sEnd.NClose != n1 {
		r.Fail("close-count", "channel %s of the first Start was closed again during the second life (%d closes in all)", w.sEnd.Name, w.sEnd.NClose)
	}
}

var cliScenarioC10 func(r *Run)

// checkDiscipline judges the record of one library-side channel end.
func checkDiscipline(r *Run, e *End, out []*outRec, exited bool) {
	for _, o := range e.Overlaps {
		r.Fail(o, "channel %s: %s (two library goroutines were inside the channel at once)", e.Name, o)
		return
	}
	for _, o := range out {
		bad := o.BadJSON || len(o.Objs) == 0
		for _, ob := range o.Objs {
			if ob.Version != "2.0" || (ob.Method == "" && ob.HasRes == ob.HasErr) {
				bad = true
			}
		}
		if bad {
			r.Fail("partial-or-non-jsonrpc-record", "record passed to Send is not one complete JSON-RPC message: %q", o.Raw)
			return
		}
	}
	if exited && e.NClose != 1 {
		r.Fail("close-count", "channel %s was closed %d times (want exactly once per Start/NewClient)", e.Name, e.NClose)
	}
}
