package verifh

import (
	"bytes"
	"context"
	"encoding/base64"
	"encoding/json"
	"errors"
	"fmt"
	"io"
	"math/big"
	"net/http"
	"net/http/httptest"
	"net/url"
	"reflect"
	"regexp"
	"strconv"
	"strings"

	"github.com/creachadair/jrpc2"
	"github.com/creachadair/jrpc2/jhttp"
	rt "github.com/creachadair/jrpc2/verifrt"
)

func init() { scenarios["C19"] = scenarioC19 }

func scenarioC19(r *Run) {
	if r.Gen.Chance("getter", 0.5) {
		scenarioC19Getter(r)
	} else {
		scenarioC19Channel(r)
	}
}

// ---------------------------------------------------------------------------
// (a) Getter under concurrent requests

var queryValues = []string{
	`"str"`, `"a\nb \"q\""`, `""`, `25`, `-16`, `3.259`, `+7`, `1e5`, `0x1F`, `1_000`, `NaN`, `nan`, `Inf`, `-inf`, `+Inf`, `Infinity`, `-Infinity`,
	`true`, `false`, `null`, `TRUE`, `Null`, `'aGVsbG8sIHdvcmxk'`, `'aGk='`, `plain`, ``, `.5`, `5.`, `1e400`, `0x1p-2`, `-0`, `007`, `1e`, `--1`,
	`9223372036854775808`, `x"y`, `it's`,
	`'AA=='`, `'AAA='`, `'AAAA'`, `''`, `'/+8='`, `'aGVsbG8sIHdvcmxkIQ=='`, `"é"`, `"\u00e9\ud83d\ude00"`, `9007199254740993`, `1700000000123456789`, `-9007199254740993`, `héllo wörld`, `a b`, `a+b`, `100%`, `-`, `+`, `.`, `1.2.3`, `12345678901234567890`, `-9223372036854775808`, `0.1`, `-0.0`, `00.5`,
}

// values that make the parser report an error (at most one per URL, so that Go
// map order cannot change the outcome)
var malformedValues = []string{`"unterminated`, `unterminated"`, `"bad \escape"`, `'unterminated`, `'bad base64!'`, `unterminated'`}

type getReq struct {
	URL    string
	Status int
	Body   string
	Done   bool
	// a request to the gated handler "h" whose HTTP request context the workload
	// cancels while the handler is held
	Tag       string
	CancelCtx bool
	cancel    context.CancelFunc
	Cancelled bool // the context was cancelled while the handler was provably held
	Entered   bool // its handler was entered (judged after the run)
}

func scenarioC19Getter(r *Run) {
	strat := r.drawStrategy()
	g := r.Gen
	th := newTagHandlers(r)
	useQuery := g.Chance("parsequery", 0.75)
	var parse func(*http.Request) (string, any, error)
	if useQuery {
		parse = jhttp.ParseQuery
	}
	ncallers := 1 + g.Int("ncallers", 3)
	var reqs [][]*getReq
	var sample []string
	for c := 0; c < ncallers; c++ {
		var l []*getReq
		for e := 0; e < 1+g.Int("nreq", 2); e++ {
			path := []string{"/echo", "/some/echo/", "/nope", "/", "/fail", "//echo//", "///some/echo///", "/fail-32602", "/fail-32603", "/fail-32600", "/fail-32097", "/fail-32096", "/fail-32098", "/fail-32700", "/h"}[g.Int("path", 15)]
			if path == "/h" {
				// a call to the gated handler, possibly abandoned by its HTTP caller
				tag := fmt.Sprintf("g%d.%d", c, e)
				q := &getReq{URL: "http://getter.test/h?t=" + tag, Tag: tag, CancelCtx: g.Chance("cancelctx", 0.6)}
				th.add(tag, g.Int("hsteps", 3), q.CancelCtx || g.Chance("hold", 0.4))
				l = append(l, q)
				sample = append(sample, fmt.Sprintf("caller %d: GET %s (context cancelled while held: %v)", c, q.URL, q.CancelCtx))
				continue
			}
			nq := g.Int("nquery", 4)
			var qs []string
			bad := g.Chance("malformed", 0.15)
			for i := 0; i < nq; i++ {
				v := queryValues[g.Int("qval", len(queryValues))]
				if bad && i == 0 {
					v = malformedValues[g.Int("badval", len(malformedValues))]
				}
				qs = append(qs, fmt.Sprintf("k%d=%s", i, url.QueryEscape(v)))
			}
			u := "http://getter.test" + path
			if len(qs) > 0 {
				u += "?" + strings.Join(qs, "&")
			}
			if g.Chance("badescape", 0.03) {
				if len(qs) > 0 {
					u += "&z=%zz"
				} else {
					u += "?z=%zz"
				}
			}
			l = append(l, &getReq{URL: u})
			sample = append(sample, fmt.Sprintf("caller %d: GET %s", c, u))
		}
		reqs = append(reqs, l)
	}
	r.Sample = map[string]any{"strategy": strat, "parser": map[bool]string{true: "ParseQuery", false: "ParseBasic (default)"}[useQuery], "requests": sample}
	var getter jhttp.Getter
	started := false
	r.Sim.Spawn("a-main", func() {
		getter = jhttp.NewGetter(th, &jhttp.GetterOptions{ParseRequest: parse})
		started = true
	})
	for c, l := range reqs {
		l := l
		r.Sim.Spawn(fmt.Sprintf("c-caller%d", c), func() {
			rt.Block("caller:start", func() bool { return started })
			for _, q := range l {
				req := httptest.NewRequest("GET", q.URL, nil)
				if q.CancelCtx {
					ctx, cancel := context.WithCancel(context.Background())
					q.cancel = cancel
					req = req.WithContext(ctx)
				}
				rec := httptest.NewRecorder()
				rt.Yield("http:get")
				getter.ServeHTTP(rec, req)
				q.Done, q.Status, q.Body = true, rec.Code, rec.Body.String()
				r.Ev("http.get", q.URL, rec.Code, 0, q.Body)
			}
		})
	}
	for {
		if !r.RunQ() {
			return
		}
		hs := th.holding()
		if len(hs) == 0 {
			break
		}
		h := hs[g.Int("release", len(hs))]
		// the HTTP caller of a held request gives up first, then the handler is released
		for _, l := range reqs {
			for _, q := range l {
				if q.Tag == h.Tag && q.CancelCtx && q.cancel != nil && !q.Cancelled && !q.Done {
					q.Cancelled = true
					r.Ev("http.ctxcancel", q.Tag, 0, 0, "")
					q.cancel()
					r.Probe("http-caller-gave-up-while-handler-held")
					if !r.RunQ() {
						return
					}
				}
			}
		}
		h.Released = true
	}
	for _, l := range reqs {
		for _, q := range l {
			if !q.Done {
				r.Fail("wrong-status", "GET %s never completed", q.URL)
				return
			}
			if q.Tag != "" {
				if h := th.recs[q.Tag]; h != nil {
					q.Entered = h.Enters > 0
					// one JSON-RPC call per HTTP request
					if h.Enters > 1 {
						r.Fail("wrong-status", "GET %s: its handler ran %d times, want one call per request", q.URL, h.Enters)
						return
					}
				}
			}
			if why, cls := judgeGet(q, useQuery, r.Sim.AutoAdvances > 0); why != "" {
				r.Fail(cls, "GET %s: %s; status %d body %q", q.URL, why, q.Status, q.Body)
				return
			}
		}
	}
	closed := false
	r.Sim.Spawn("z-close", func() { getter.Close(); closed = true })
	if !r.RunQ() {
		return
	}
	if !closed {
		r.Fail("goroutine-left", "Getter.Close did not return")
		return
	}
	if left := r.Sim.Unfinished(); len(left) > 0 {
		r.Fail("goroutine-left", "after Getter.Close: %d goroutines left, first %s@%s", len(left), left[0].Name, left[0].Site)
	}
}

func judgeGet(q *getReq, useQuery bool, autoAdvanced bool) (why, cls string) {
	// what the documented parser makes of the URL (run directly, as a pure function)
	var method string
	var params any
	var perr error
	func() {
		defer func() {
			if p := recover(); p != nil {
				why, cls = fmt.Sprintf("the query parser panicked: %v", p), "parser-panic"
			}
		}()
		req := httptest.NewRequest("GET", q.URL, nil)
		if useQuery {
			method, params, perr = jhttp.ParseQuery(req)
		} else {
			method, params, perr = jhttp.ParseBasic(req)
		}
	}()
	if why != "" {
		return
	}
	switch q.Status {
	case 200, 400, 404, 500:
	default:
		return "status is not one of 200, 400, 404, 500", "wrong-status"
	}
	if !json.Valid([]byte(q.Body)) {
		return "response body is not valid JSON", "body-not-json"
	}
	if perr != nil {
		if _, kind := refQueryParams(q.URL, useQuery); kind == "value" {
			if u, err := url.Parse(q.URL); err == nil && strings.Trim(u.Path, "/") != "" {
				return fmt.Sprintf("the parser rejected the URL (%v) although it names a method and every value follows the documented rules", perr), "wrong-typing"
			}
		}
		if q.Status != 400 || !strings.Contains(q.Body, `"code"`) {
			return fmt.Sprintf("the URL does not parse (%v): want 400 with a JSON error object", perr), "wrong-status"
		}
		return "", ""
	}
	if method == "" {
		return "parser returned an empty method without error", "wrong-status"
	}
	// the documented method: the URL path with its leading and trailing slashes
	// removed, computed here without the library
	if u, err := url.Parse(q.URL); err == nil {
		want := u.Path
		for strings.HasPrefix(want, "/") {
			want = want[1:]
		}
		for strings.HasSuffix(want, "/") {
			want = want[:len(want)-1]
		}
		if want == "" {
			return "the path holds no method name, yet the parser accepted the URL", "wrong-method"
		}
		if method != want {
			return fmt.Sprintf("the parser took method %q from the URL, the documented rule (path trimmed of slashes) gives %q", method, want), "wrong-method"
		}
	}
	pbits, merr := json.Marshal(params)
	if merr != nil {
		return fmt.Sprintf("the parser accepted the URL but its parameters cannot be marshalled: %v", merr), "params-not-marshalable"
	}
	// the documented typing rules, applied independently of the implementation
	if ref, kind := refQueryParams(q.URL, useQuery); kind != "unspec" {
		if kind == "error" {
			return "the documented rules reject a value of this URL, yet the parser accepted it", "wrong-typing"
		}
		rbits, _ := json.Marshal(ref)
		if ref == nil {
			rbits = []byte("null")
		}
		got := pbits
		if params == nil {
			got = []byte("null")
		}
		if !sameJSONValue(string(rbits), string(got)) && !(isEmptyParams(string(rbits)) && isEmptyParams(string(got))) {
			return fmt.Sprintf("the parser produced parameters %s, the documented typing rules give %s", got, rbits), "wrong-typing"
		}
	}
	if q.Status == 500 && autoAdvanced && (method != "h" || q.Entered) {
		// A timer of the library expired during the run (the scheduler may let one
		// fire while a request is in flight): a call that timed out is "any other
		// failure", whatever the method. (For the tagged method the call must have
		// been made: its handler was entered.)
		return "", ""
	}
	switch {
	case method == "echo" || method == "some/echo":
		want := string(pbits)
		if params == nil {
			want = "null"
		}
		if q.Status != 200 || !(sameJSONValue(q.Body, want) || (isEmptyParams(q.Body) && isEmptyParams(want))) {
			return fmt.Sprintf("want 200 with the parameters %s echoed", want), "wrong-status"
		}
	case strings.HasPrefix(method, "fail"):
		// any failure other than a parse error or method-not-found is a 500
		if q.Status != 500 {
			return "want 500 (with a JSON body) for a failing handler, whatever its code", "wrong-status"
		}
	case method == "h":
		if q.Cancelled {
			// the HTTP request's context ended while the handler was held: the call
			// may be abandoned (a failure: 500) or completed regardless (200 with
			// that handler's own result); the property names no third outcome
			if q.Status != 500 && !(q.Status == 200 && compactJSON(q.Body) == fmt.Sprintf(`{"tag":%q}`, q.Tag)) {
				return "the request's context ended while its handler was held: want 500, or 200 with the handler's own result", "wrong-status"
			}
		} else if q.Status == 500 && autoAdvanced && q.Entered {
			// the handler was held for as long as the workload pleased and a timer
			// of the library expired meanwhile: a call that timed out is "any
			// other failure" (C19 does not forbid a default timeout)
		} else if q.Status != 200 || compactJSON(q.Body) != fmt.Sprintf(`{"tag":%q}`, q.Tag) {
			return "want 200 with the handler's result", "wrong-status"
		}
	default:
		if q.Status != 404 {
			return "want 404 for an unknown method", "wrong-status"
		}
	}
	return "", ""
}

// ---------------------------------------------------------------------------
// (b) a Client over jhttp.Channel against a Bridge

type simHTTP struct {
	r        *Run
	bridge   *jhttp.Bridge
	n        int
	faults   map[int]int // index of Do call -> 1 error, 2 status 500, 3 body unreadable, 4 body read fails midway
	Opened   int
	Closed   int
	InFlight int
}

type countBody struct {
	io.Reader
	h      *simHTTP
	closed bool
	failAt int // >= 0: reading fails once this many bytes have been delivered
	nread  int
}

func (b *countBody) Read(p []byte) (int, error) {
	if b.failAt >= 0 {
		if b.nread >= b.failAt {
			return 0, errHTTPInjected
		}
		if len(p) > b.failAt-b.nread {
			p = p[:b.failAt-b.nread]
		}
	}
	n, err := b.Reader.Read(p)
	b.nread += n
	return n, err
}

func (b *countBody) Close() error {
	if !b.closed {
		b.closed = true
		b.h.Closed++
	}
	return nil
}

var errHTTPInjected = errors.New("injected HTTP failure")

func (h *simHTTP) Do(req *http.Request) (*http.Response, error) {
	k := h.n
	h.n++
	h.InFlight++
	defer func() { h.InFlight-- }()
	rt.Yield("http:do")
	if h.faults[k] == 1 {
		h.r.Fault("http-do-error")
		return nil, errHTTPInjected
	}
	rec := httptest.NewRecorder()
	h.bridge.ServeHTTP(rec, req)
	rt.Yield("http:done")
	code := rec.Code
	if h.faults[k] == 2 {
		h.r.Fault("http-status-500")
		code = 500
	}
	h.Opened++
	body := &countBody{Reader: bytes.NewReader(rec.Body.Bytes()), h: h, failAt: -1}
	if h.faults[k] >= 3 {
		// the response arrives, but reading its body fails: at once, or midway
		h.r.Fault("http-body-read-error")
		body.failAt = 0
		if h.faults[k] == 4 {
			body.failAt = rec.Body.Len() / 2
		}
	}
	return &http.Response{StatusCode: code, Status: fmt.Sprintf("%d %s", code, http.StatusText(code)), Header: rec.Header(), Body: body,
		ContentLength: int64(rec.Body.Len()), Request: req, Proto: "HTTP/1.1", ProtoMajor: 1, ProtoMinor: 1}, nil
}

func scenarioC19Channel(r *Run) {
	strat := r.drawStrategy()
	g := r.Gen
	th := newTagHandlers(r)
	hc := &simHTTP{r: r, faults: map[int]int{}}
	faulty := false
	if g.Chance("dofault", 0.3) {
		hc.faults[g.Int("dofaultat", 5)] = 1 + g.Int("dofaultkind", 4)
		faulty = true
	}
	type hop struct {
		kind  opKind
		tags  []string
		notes []bool
		delay int
		pad   string // extra parameter text: requests far larger than any buffer
		done  bool
		err   error
		got   []string
	}
	var ops []*hop
	n := 1 + g.Int("nops", 4)
	var sample []string
	for i := 0; i < n; i++ {
		op := &hop{kind: opKind(g.Weighted("opkind", []int{5, 0, 3, 2})), delay: g.Int("opdelay", 25)}
		k := 1
		if op.kind == oBatch {
			k = 1 + g.Int("nspecs", 3)
		}
		for j := 0; j < k; j++ {
			tag := fmt.Sprintf("o%d.%d", i, j)
			op.tags = append(op.tags, tag)
			op.notes = append(op.notes, op.kind == oNotify || (op.kind == oBatch && g.Chance("specnote", 0.3)))
			th.add(tag, g.Int("hsteps", 3), g.Chance("hold", 0.25))
		}
		if g.Chance("bigparams", 0.08) {
			op.pad = strings.Repeat("p", 66000+g.Int("padlen", 140000))
			r.Probe("large-http-request")
		}
		ops = append(ops, op)
		sample = append(sample, fmt.Sprintf("%s %v notify=%v pad=%d", op.kind, op.tags, op.notes, len(op.pad)))
	}
	earlyClose := g.Chance("earlyclose", 0.4)
	closeDelay := g.Int("closedelay", 120)
	r.Sample = map[string]any{"strategy": strat, "ops": sample, "http_faults": fmt.Sprint(hc.faults), "close_while_in_flight": earlyClose}

	var bridge jhttp.Bridge
	var cli *jrpc2.Client
	started := false
	r.Sim.Spawn("a-main", func() {
		bridge = jhttp.NewBridge(th, &jhttp.BridgeOptions{Server: &jrpc2.ServerOptions{Concurrency: 1 + g.Int("K", 3)}})
		hc.bridge = &bridge
		ch := jhttp.NewChannel("http://bridge.test/rpc", &jhttp.ChannelOptions{Client: hc})
		cli = jrpc2.NewClient(ch, nil)
		started = true
	})
	for i, op := range ops {
		op := op
		r.Sim.Spawn(fmt.Sprintf("x-op%d", i), func() {
			rt.Block("op:start", func() bool { return started })
			for k := 0; k < op.delay; k++ {
				rt.Yield("op:delay")
			}
			ctx := context.Background()
			switch op.kind {
			case oCall, oCallResult:
				rsp, err := cli.Call(ctx, "h", map[string]string{"t": op.tags[0], "pad": op.pad})
				op.err = err
				if err == nil {
					op.got = append(op.got, rsp.ResultString())
				}
			case oNotify:
				op.err = cli.Notify(ctx, "h", map[string]string{"t": op.tags[0], "pad": op.pad})
			case oBatch:
				var specs []jrpc2.Spec
				for j, t := range op.tags {
					specs = append(specs, jrpc2.Spec{Method: "h", Params: map[string]string{"t": t, "pad": op.pad}, Notify: op.notes[j]})
				}
				rsps, err := cli.Batch(ctx, specs)
				op.err = err
				for _, rsp := range rsps {
					if e := rsp.Error(); e != nil {
						op.got = append(op.got, "E:"+e.Message)
					} else {
						op.got = append(op.got, rsp.ResultString())
					}
				}
			}
			op.done = true
			r.Ev("op.return", fmt.Sprint(op.kind, op.tags), 0, 0, errStr(op.err)+fmt.Sprint(op.got))
		})
	}
	closeInvoked, closeDone := -1, false
	doClose := func() {
		closeInvoked = len(r.Sim.Events)
		r.Ev("close.invoke", "", hc.InFlight, hc.Opened-hc.Closed, "")
		if hc.InFlight > 0 {
			r.Probe("close-with-posts-in-flight")
		}
		cli.Close()
		closeDone = true
		r.Ev("close.return", "", 0, 0, "")
	}
	if earlyClose {
		r.Sim.Spawn("y-close", func() {
			rt.Block("close:start", func() bool { return started })
			for k := 0; k < closeDelay; k++ {
				rt.Yield("close:delay")
			}
			doClose()
		})
	}
	for {
		if !r.RunQ() {
			return
		}
		hs := th.holding()
		if len(hs) == 0 {
			break
		}
		hs[g.Int("release", len(hs))].Released = true
	}
	if !earlyClose {
		r.Sim.Spawn("y-close", doClose)
		if !r.RunQ() {
			return
		}
	}
	th.releaseAll = true
	// judge
	for _, op := range ops {
		if !op.done {
			r.Fail("differs-from-direct", "%s %v has not returned (client closed=%v)", op.kind, op.tags, closeDone)
			return
		}
		undisturbed := !faulty && (!earlyClose)
		if op.err != nil {
			if undisturbed {
				r.Fail("differs-from-direct", "%s %v failed with %v on a healthy HTTP channel", op.kind, op.tags, op.err)
				return
			}
			continue
		}
		// results must be the ones a direct connection yields: the own tags, in order
		var want []string
		for j, t := range op.tags {
			if !op.notes[j] {
				want = append(want, fmt.Sprintf(`{"tag":%q}`, t))
			}
		}
		if op.kind == oNotify {
			want = nil
		}
		for j, got := range op.got {
			if j < len(want) && compactJSON(got) == want[j] {
				continue
			}
			if !undisturbed && strings.HasPrefix(got, "E:") {
				continue
			}
			r.Fail("differs-from-direct", "%s %v returned %v, over a direct connection it returns %v", op.kind, op.tags, op.got, want)
			return
		}
		if len(op.got) != len(want) {
			r.Fail("differs-from-direct", "%s %v returned %d results, want %d", op.kind, op.tags, len(op.got), len(want))
			return
		}
	}
	if !closeDone {
		r.Fail("goroutine-left", "Client.Close over the HTTP channel has not returned (invoked #%d)", closeInvoked)
		return
	}
	bclosed := false
	r.Sim.Spawn("z-bclose", func() { bridge.Close(); bclosed = true })
	if !r.RunQ() {
		return
	}
	if !bclosed {
		r.Fail("goroutine-left", "Bridge.Close has not returned")
		return
	}
	if hc.Opened != hc.Closed {
		r.Fail("body-not-closed", "%d HTTP response bodies were handed to the channel, %d were closed", hc.Opened, hc.Closed)
		return
	}
	if left := r.Sim.Unfinished(); len(left) > 0 {
		var names []string
		for _, g := range left {
			names = append(names, g.Name+"@"+g.Site+"("+g.State()+")")
		}
		r.Fail("goroutine-left", "after closing the client and the bridge: %v", names)
	}
}

var (
	reInt   = regexp.MustCompile(`^[+-]?[0-9]+$`)
	reFloat = regexp.MustCompile(`^[+-]?[0-9]+\.[0-9]+$`)
)

// refQueryParams applies the typing rules documented for ParseQuery (and
// ParseBasic) to the query of rawURL. kind is "value", "error" (some value must
// be rejected) or "unspec" (the documentation does not settle some value).
func refQueryParams(rawURL string, useQuery bool) (any, string) {
	u, err := url.Parse(rawURL)
	if err != nil {
		return nil, "unspec"
	}
	vals, err := url.ParseQuery(u.RawQuery)
	if err != nil {
		return nil, "unspec"
	}
	if !useQuery {
		m := map[string]string{}
		for k, v := range vals {
			m[k] = v[0]
		}
		return m, "value"
	}
	if len(vals) == 0 {
		return nil, "value"
	}
	out := map[string]any{}
	for k, vs := range vals {
		v := vs[0]
		switch {
		case len(v) >= 2 && v[0] == '"' && v[len(v)-1] == '"':
			var sdec string
			if json.Unmarshal([]byte(v), &sdec) != nil {
				return nil, "error"
			}
			out[k] = sdec
		case v != "" && (v[0] == '"' || v[len(v)-1] == '"'):
			return nil, "unspec" // a quote on one side only
		case reInt.MatchString(v):
			n, err := strconv.ParseInt(v, 10, 64)
			if err != nil {
				return nil, "unspec" // does not fit an int64
			}
			out[k] = n
		case reFloat.MatchString(v):
			f, err := strconv.ParseFloat(v, 64)
			if err != nil {
				return nil, "unspec"
			}
			out[k] = f
		case v == "true":
			out[k] = true
		case v == "false":
			out[k] = false
		case v == "null":
			out[k] = nil
		case len(v) >= 2 && v[0] == '\'' && v[len(v)-1] == '\'':
			dec, err := base64.RawStdEncoding.DecodeString(strings.TrimRight(v[1:len(v)-1], "="))
			if err != nil {
				return nil, "error"
			}
			out[k] = dec
		case v != "" && (v[0] == '\'' || v[len(v)-1] == '\''):
			return nil, "unspec"
		default:
			if _, err := strconv.ParseFloat(v, 64); err == nil {
				// exponents, hex floats, bare fractions, spellings of infinity: the
				// documentation says "decimal digits and an optional leading sign"
				// and the implementation is wider; not judged
				return nil, "unspec"
			}
			if _, err := strconv.ParseInt(v, 0, 64); err == nil {
				return nil, "unspec"
			}
			out[k] = v
		}
	}
	return out, "value"
}

// sameJSONValue compares two JSON texts as values (numbers by value: -0 and 0,
// 1 and 1.0 are the same number).
func sameJSONValue(a, b string) bool {
	dec := func(s string) (any, bool) {
		d := json.NewDecoder(strings.NewReader(s))
		d.UseNumber()
		var v any
		if d.Decode(&v) != nil {
			return nil, false
		}
		return v, true
	}
	va, oka := dec(a)
	vb, okb := dec(b)
	if !oka || !okb {
		return a == b
	}
	return sameValue(va, vb)
}

// sameValue compares decoded JSON values; numbers exactly (as rationals), so
// that 9007199254740993 is not 9007199254740992.
func sameValue(a, b any) bool {
	switch x := a.(type) {
	case json.Number:
		y, ok := b.(json.Number)
		if !ok {
			return false
		}
		rx, ok1 := new(big.Rat).SetString(x.String())
		ry, ok2 := new(big.Rat).SetString(y.String())
		if !ok1 || !ok2 {
			return x.String() == y.String()
		}
		return rx.Cmp(ry) == 0
	case map[string]any:
		y, ok := b.(map[string]any)
		if !ok || len(x) != len(y) {
			return false
		}
		for k, v := range x {
			w, ok := y[k]
			if !ok || !sameValue(v, w) {
				return false
			}
		}
		return true
	case []any:
		y, ok := b.([]any)
		if !ok || len(x) != len(y) {
			return false
		}
		for i := range x {
			if !sameValue(x[i], y[i]) {
				return false
			}
		}
		return true
	}
	return reflect.DeepEqual(a, b)
}

// isEmptyParams: no parameters at all, written as null or as an empty object.
func isEmptyParams(s string) bool {
	s = strings.TrimSpace(s)
	return s == "null" || s == "{}"
}
