package verifh

import (
	"context"
	"encoding/json"
	"fmt"
	"net/http"
	"net/http/httptest"
	"sort"
	"strconv"
	"strings"

	"github.com/creachadair/jrpc2"
	"github.com/creachadair/jrpc2/jhttp"
	rt "github.com/creachadair/jrpc2/verifrt"
)

func init() { scenarios["C18"] = scenarioC18 }

// tagHandlers is a small gated-handler set shared by the composite workloads.
type hrec struct {
	Tag          string
	Steps        int
	Hold         bool
	Fail         bool
	Enters       int
	Enter, Exit  int
	Holding      bool
	Released     bool
	Params       string
}

type tagHandlers struct {
	r          *Run
	recs       map[string]*hrec
	order      []*hrec
	releaseAll bool
	unknownRan []string
}

func newTagHandlers(r *Run) *tagHandlers { return &tagHandlers{r: r, recs: map[string]*hrec{}} }

func (t *tagHandlers) add(tag string, steps int, hold bool) *hrec {
	h := &hrec{Tag: tag, Steps: steps, Hold: hold, Enter: -1, Exit: -1}
	t.recs[tag] = h
	t.order = append(t.order, h)
	return h
}

func (t *tagHandlers) seq() int { return len(t.r.Sim.Events) }

// Assign implements jrpc2.Assigner: methods "h" (tagged, gated) and "echo".
func (t *tagHandlers) Assign(ctx context.Context, method string) jrpc2.Handler {
	switch method {
	case "h":
		return t.handle
	case "echo", "some/echo":
		return func(ctx context.Context, req *jrpc2.Request) (any, error) {
			var raw json.RawMessage
			req.UnmarshalParams(&raw)
			t.r.Ev("echo", "", 0, 0, string(raw))
			if raw == nil {
				return nil, nil
			}
			return raw, nil
		}
	}
	if strings.HasPrefix(method, "fail") {
		// "fail" or "fail<code>": a handler that fails with the given code
		code := 1234
		if n, err := strconv.Atoi(method[4:]); err == nil {
			code = n
		}
		return func(ctx context.Context, req *jrpc2.Request) (any, error) {
			return nil, jrpc2.Errorf(jrpc2.Code(code), "handler failed")
		}
	}
	return nil
}

func (t *tagHandlers) handle(ctx context.Context, req *jrpc2.Request) (any, error) {
	var p tagParams
	req.UnmarshalParams(&p)
	h := t.recs[p.T]
	if h == nil {
		t.unknownRan = append(t.unknownRan, p.T)
		return map[string]string{"tag": p.T}, nil
	}
	h.Enters++
	if h.Enter < 0 {
		h.Enter = t.seq()
	}
	h.Params = req.ParamString()
	t.r.Ev("h.enter", h.Tag, h.Enters, 0, "")
	for i := 0; i < h.Steps; i++ {
		rt.Yield("h:step")
	}
	if h.Hold {
		h.Holding = true
		rt.Block("h:hold", func() bool { return h.Released || t.releaseAll })
		h.Holding = false
	}
	h.Exit = t.seq()
	t.r.Ev("h.exit", h.Tag, 0, 0, "")
	if h.Fail {
		return nil, jrpc2.Errorf(jrpc2.Code(7777), "app error %s", h.Tag)
	}
	return map[string]string{"tag": h.Tag}, nil
}

func (t *tagHandlers) holding() []*hrec {
	var out []*hrec
	for _, h := range t.order {
		if h.Holding && !h.Released {
			out = append(out, h)
		}
	}
	return out
}

// ---------------------------------------------------------------------------
// C18: HTTP bridge

type bmember struct {
	Kind   mkind // mCall, mNote, mUnknownCall, mInvalid
	ID     string
	EchoID string
	Tag    string
	Raw    string
	Defect string
}

type exchange struct {
	Caller  int
	Method  string
	CType   string
	Body    string
	Members []*bmember
	Batch   bool
	Kind    string // "rpc", "non-post", "bad-type", "bad-charset", "non-json"
	// result
	Done   bool
	Status int
	Resp   string
	Begin, End int
}

var exoticIDs = []string{`1`, `2`, `"1"`, `1e3`, `-0`, `1.5`, `"a-rather-long-string-identifier-0123456789-0123456789"`, `0`, `"x\"y"`}

func scenarioC18(r *Run) {
	strat := r.drawStrategy()
	g := r.Gen
	th := newTagHandlers(r)
	ncallers := 1 + g.Int("ncallers", 4)
	var exs [][]*exchange
	n := 0
	for c := 0; c < ncallers; c++ {
		var list []*exchange
		for e := 0; e < 1+g.Int("nexchanges", 2); e++ {
			ex := &exchange{Caller: c, Method: "POST", CType: "application/json", Kind: "rpc"}
			switch g.Weighted("exkind", []int{16, 2, 2, 1, 3}) {
			case 1:
				ex.Kind, ex.Method = "non-post", []string{"GET", "PUT", "DELETE", "OPTIONS", "HEAD", "PATCH", "post", "TRACE", "FOO"}[g.Int("verb", 9)]
			case 2:
				ex.Kind, ex.CType = "bad-type", []string{"text/plain", "", "application/xml", "application/jsonx", "application/json-rpc", "text/json", "application/x-json", "json", "application/", "application/vnd.api+json"}[g.Int("ctype", 10)]
			case 3:
				ex.Kind, ex.CType = "bad-charset", []string{"application/json; charset=latin1", "application/json; charset=utf-16", "application/json; charset=us-ascii", "application/json; charset=utf-7", "application/json;charset=iso-8859-1"}[g.Int("badcharset", 5)]
			case 4:
				ex.Kind = "non-json"
			}
			if g.Chance("charsetok", 0.2) && ex.Kind == "rpc" {
				ex.CType = []string{"application/json; charset=utf-8", "application/json;charset=utf8"}[g.Int("charset", 2)]
			}
			ex.Batch = g.Chance("batch", 0.6)
			k := 1
			if ex.Batch {
				k = 1 + g.Int("nmembers", 4)
			}
			var parts []string
			for i := 0; i < k; i++ {
				n++
				m := &bmember{Tag: fmt.Sprintf("c%d.%d.%d", c, e, i)}
				id := exoticIDs[g.Int("id", len(exoticIDs))]
				params := fmt.Sprintf(`{"t":%q}`, m.Tag)
				if g.Chance("bigparams", 0.04) {
					// a request body far beyond any buffer or "reasonable" limit
					params = fmt.Sprintf(`{"t":%q,"pad":%q}`, m.Tag, strings.Repeat("p", 66000+g.Int("padlen", 400000)))
					r.Probe("large-http-request")
				}
				switch g.Weighted("bkind", []int{8, 3, 2, 3}) {
				case 0:
					m.Kind, m.ID = mCall, id
					m.Raw = fmt.Sprintf(`{"jsonrpc":"2.0","id":%s,"method":"h","params":%s}`, id, params)
					h := th.add(m.Tag, g.Int("hsteps", 3), g.Chance("hold", 0.3))
					h.Fail = g.Chance("hfail", 0.2)
				case 1:
					m.Kind = mNote
					m.Raw = fmt.Sprintf(`{"jsonrpc":"2.0","method":"h","params":%s}`, params)
					th.add(m.Tag, g.Int("hsteps", 3), g.Chance("hold", 0.2))
				case 2:
					m.Kind, m.ID = mUnknownCall, id
					m.Raw = fmt.Sprintf(`{"jsonrpc":"2.0","id":%s,"method":"nope","params":%s}`, id, params)
				case 3:
					m.Kind = mInvalid
					m.Defect = []string{"version", "params-scalar", "id-type", "extra", "non-object", "method-type"}[g.Int("defect", 6)]
					m.ID, m.EchoID = id, id
					switch m.Defect {
					case "version":
						m.Raw = fmt.Sprintf(`{"jsonrpc":"1.0","id":%s,"method":"h","params":%s}`, id, params)
					case "params-scalar":
						m.Raw = fmt.Sprintf(`{"jsonrpc":"2.0","id":%s,"method":"h","params":7}`, id)
					case "id-type":
						m.ID, m.EchoID = "", "null"
						m.Raw = fmt.Sprintf(`{"jsonrpc":"2.0","id":[1],"method":"h","params":%s}`, params)
					case "extra":
						m.Raw = fmt.Sprintf(`{"jsonrpc":"2.0","id":%s,"method":"h","params":%s,"zz":1}`, id, params)
					case "non-object":
						m.ID, m.EchoID = "", "null"
						m.Raw = `17`
					case "method-type":
						m.Raw = fmt.Sprintf(`{"jsonrpc":"2.0","id":%s,"method":17,"params":%s}`, id, params)
					}
				}
				ex.Members = append(ex.Members, m)
				parts = append(parts, m.Raw)
			}
			if ex.Batch {
				ex.Body = "[" + strings.Join(parts, ",") + "]"
			} else {
				ex.Body = parts[0]
			}
			if ex.Kind == "non-json" {
				// bodies that are not valid JSON: from scratch, or a valid body damaged
				// (its members must then not reach a handler either)
				valid := ex.Body
				switch g.Int("garbage", 9) {
				case 0:
					ex.Body = `{"jsonrpc":`
				case 1:
					ex.Body = `hello`
				case 2:
					ex.Body = ``
				case 3:
					ex.Body = `[1,`
				case 4:
					ex.Body = valid + ` this is not JSON`
				case 5:
					ex.Body = valid + valid
				case 6:
					ex.Body = valid + `]`
				case 7:
					ex.Body = valid[:1+g.Int("truncat", len(valid)-1)]
				case 8:
					ex.Body = valid + `,,,`
				}
				if json.Valid([]byte(ex.Body)) {
					ex.Body = `hello` // the damage happened to leave valid JSON (a truncated number)
				}
			}
			list = append(list, ex)
		}
		exs = append(exs, list)
	}
	K := 1 + g.Int("K", 4)
	var sample []string
	for _, l := range exs {
		for _, ex := range l {
			sample = append(sample, fmt.Sprintf("caller %d: %s %s %s", ex.Caller, ex.Method, ex.CType, ex.Body))
		}
	}
	r.Sample = map[string]any{"strategy": strat, "concurrency": K, "exchanges": sample}

	var bridge jhttp.Bridge
	started := false
	r.Sim.Spawn("a-main", func() {
		bridge = jhttp.NewBridge(th, &jhttp.BridgeOptions{Server: &jrpc2.ServerOptions{Concurrency: K}})
		started = true
	})
	for c, list := range exs {
		list := list
		r.Sim.Spawn(fmt.Sprintf("c-caller%d", c), func() {
			rt.Block("caller:start", func() bool { return started })
			for _, ex := range list {
				req := httptest.NewRequest(ex.Method, "http://bridge.test/rpc", strings.NewReader(ex.Body))
				if ex.CType != "" {
					req.Header.Set("Content-Type", ex.CType)
				}
				rec := httptest.NewRecorder()
				ex.Begin = len(r.Sim.Events)
				r.Ev("http.req", fmt.Sprint("caller", ex.Caller), 0, 0, ex.Method+" "+ex.Body)
				rt.Yield("http:req")
				bridge.ServeHTTP(rec, req)
				ex.Done, ex.Status, ex.Resp = true, rec.Code, rec.Body.String()
				ex.End = len(r.Sim.Events)
				r.Ev("http.rsp", fmt.Sprint("caller", ex.Caller), rec.Code, 0, ex.Resp)
			}
		})
	}
	// drive: release held handlers in drawn order
	for {
		if !r.RunQ() {
			return
		}
		hs := th.holding()
		if len(hs) == 0 {
			break
		}
		if len(hs) > 1 {
			r.Probe("several-http-callers-held-concurrently")
		}
		hs[g.Int("release", len(hs))].Released = true
	}
	// judge every exchange
	for _, l := range exs {
		for _, ex := range l {
			if !ex.Done {
				r.Fail("foreign-or-missing-response", "HTTP request of caller %d never completed: %s", ex.Caller, ex.Body)
				return
			}
			if why, cls := judgeExchange(ex, th); why != "" {
				r.Fail(cls, "caller %d, %s %q (%s): %s; status %d body %s", ex.Caller, ex.Method, ex.Body, ex.CType, why, ex.Status, ex.Resp)
				return
			}
		}
	}
	for _, h := range th.order {
		valid := false
		for _, l := range exs {
			for _, ex := range l {
				for _, m := range ex.Members {
					if m.Tag == h.Tag && ex.Kind == "rpc" {
						valid = true
					}
				}
			}
		}
		if valid && h.Enters != 1 {
			r.Fail("handler-count", "handler for %s ran %d times, want exactly once", h.Tag, h.Enters)
			return
		}
		if !valid && h.Enters != 0 {
			r.Fail("handler-count", "handler for %s ran although its HTTP request must be refused", h.Tag)
			return
		}
	}
	if len(th.unknownRan) > 0 {
		r.Fail("handler-count", "handlers ran for members that are not valid requests: %v", th.unknownRan)
		return
	}
	var cerr error
	closed := false
	r.Sim.Spawn("z-close", func() { cerr = bridge.Close(); closed = true })
	if !r.RunQ() {
		return
	}
	if !closed || cerr != nil {
		r.Fail("wrong-status", "Bridge.Close returned=%v err=%v", closed, cerr)
		return
	}
	var left []string
	for _, g := range r.Sim.Unfinished() {
		left = append(left, g.Name+"@"+g.Site)
	}
	if len(left) > 0 {
		r.Fail("goroutine-left", "after Bridge.Close: %v", left)
	}
}

func judgeExchange(ex *exchange, th *tagHandlers) (string, string) {
	switch ex.Kind {
	case "non-post":
		if ex.Status != http.StatusMethodNotAllowed {
			return "want 405 for a non-POST request", "wrong-status"
		}
		return "", ""
	case "bad-type", "bad-charset":
		if ex.Status == http.StatusUnsupportedMediaType {
			return "", ""
		}
		// Some labels are JSON by another name (a structured-syntax suffix, the
		// registered JSON-RPC types, US-ASCII as a subset of UTF-8) or no label at
		// all: "non-JSON or non-UTF-8 content types 415" does not settle them. A
		// bridge that takes them must then serve the request like any other.
		lenient := map[string]bool{"": true, "application/json-rpc": true, "text/json": true, "application/x-json": true, "application/vnd.api+json": true, "application/json; charset=us-ascii": true}
		if !lenient[ex.CType] {
			return "want 415 for this content type", "wrong-status"
		}
		ex.Kind = "rpc"
	case "non-json":
		if ex.Status < 400 {
			return "want an error status for a body that is not JSON", "wrong-status"
		}
		return "", ""
	}
	// expected response objects (as a multiset keyed by id text + payload)
	type want struct {
		id   string
		kind string // "result:<tag>", "apperr:<tag>", "nomethod", "invalid"
	}
	var wants []want
	for _, m := range ex.Members {
		switch m.Kind {
		case mCall:
			if th.recs[m.Tag].Fail {
				wants = append(wants, want{m.ID, "apperr:" + m.Tag})
			} else {
				wants = append(wants, want{m.ID, "result:" + m.Tag})
			}
		case mUnknownCall:
			wants = append(wants, want{m.ID, "nomethod"})
		case mInvalid:
			wants = append(wants, want{m.EchoID, "invalid"})
		}
	}
	if len(wants) == 0 {
		if ex.Status != http.StatusNoContent || ex.Resp != "" {
			return "want 204 with an empty body for a request holding only notifications", "wrong-status"
		}
		return "", ""
	}
	if ex.Status != http.StatusOK {
		return fmt.Sprintf("want 200 with %d response objects", len(wants)), "wrong-status"
	}
	o := &outRec{Raw: ex.Resp}
	parseOut(o)
	if o.BadJSON {
		return "body is not a JSON-RPC response", "wrong-shape"
	}
	if (len(wants) == 1) == o.Array {
		return fmt.Sprintf("want a single object iff there is exactly one response (%d expected)", len(wants)), "wrong-shape"
	}
	if len(o.Objs) != len(wants) {
		return fmt.Sprintf("want %d response objects, got %d", len(wants), len(o.Objs)), "foreign-or-missing-response"
	}
	used := make([]bool, len(o.Objs))
	for _, w := range wants {
		found := false
		for i, ob := range o.Objs {
			if used[i] {
				continue
			}
			ok := false
			switch {
			case strings.HasPrefix(w.kind, "result:"):
				ok = ob.HasRes && compactJSON(ob.Result) == fmt.Sprintf(`{"tag":%q}`, w.kind[7:])
			case strings.HasPrefix(w.kind, "apperr:"):
				ok = ob.HasErr && ob.Code == 7777 && strings.HasSuffix(ob.Message, " "+w.kind[7:])
			case w.kind == "nomethod":
				ok = ob.HasErr && ob.Code == -32601
			case w.kind == "invalid":
				ok = ob.HasErr && (ob.Code == -32600 || ob.Code == -32700)
			}
			if ok && ob.ID == w.id && ob.Version == "2.0" {
				used[i], found = true, true
				break
			}
			if ok && ob.ID != w.id && strings.Contains(w.kind, ":") {
				return fmt.Sprintf("the response for %s bears id %s, the caller used %s", w.kind, ob.ID, w.id), "id-not-preserved"
			}
		}
		if !found {
			return fmt.Sprintf("no response object for %s with id %s", w.kind, w.id), "foreign-or-missing-response"
		}
	}
	return "", ""
}

func sortedStrings(s []string) []string { sort.Strings(s); return s }
