package verifh

import (
	"bytes"
	"fmt"
	"io"
	"math/big"
	"strings"

	"github.com/creachadair/jrpc2/channel"
	rt "github.com/creachadair/jrpc2/verifrt"
)

func init() { scenarios["C12"] = scenarioC12 }

// adversarial header blocks (without the terminating blank line unless stated)
var advHeaders = []string{
	"Content-Length: 9223372036854775807\r\n\r\n",
	"Content-Length: 4611686018427387904\r\n\r\n",
	"Content-Length: 99999999999999999999\r\n\r\n",
	"Content-Length: 18446744073709551616\r\n\r\n",
	"Content-Length: 2147483648\r\n\r\n",
	"Content-Length: 300000000000\r\n\r\n",
	"Content-Length: -1\r\n\r\n",
	"Content-Length: -0\r\n\r\n",
	"Content-Length: +3\r\n\r\nabc",
	"Content-Length:   3  \r\n\r\nabc",
	"content-length: 3\r\n\r\nabc",
	"CONTENT-LENGTH: 3\r\nCONTENT-TYPE: %M\r\n\r\nabc",
	"Content-Length: 3\r\nContent-Length: 4\r\n\r\nabcd",
	"X-Unknown: foo: bar\r\nContent-Length: 3\r\nContent-Type: %M\r\n\r\nabc",
	"Content-Length: 3\r\nContent-Type: %M\r\nabc",
	"Content-Length: 3\nContent-Type: %M\n\nabc",
	"Content-Length: 3\r\nContent-Type: other/type\r\n\r\nabc",
	"Content-Type: %M\r\n\r\nabc",
	"Content-Length: abc\r\n\r\nabc",
	"Content-Length: 0x10\r\n\r\n0123456789abcdef",
	"Content-Length: 1e1\r\n\r\n0123456789",
	"Content-Length: 3.0\r\n\r\nabc",
	"garbage line\r\nContent-Length: 3\r\n\r\nabc",
	"Content-Length: 3 3\r\n\r\nabc",
	"Content-Length:\r\n\r\nabc",
	"Content-Length: 0\r\nContent-Type: %M\r\n\r\n",
	": 3\r\nContent-Length: 3\r\nContent-Type: %M\r\n\r\nabc",
	"Content-Length: 3\r\n\r\nabc",
	"\r\nabc",
	"Content-Length: 00000000000000000000003\r\nContent-Type: %M\r\n\r\nabc",
	// well-formed but unusual: fields after Content-Length, long unknown fields
	"Content-Length: 5\r\nX-After: yes\r\nContent-Type: %M\r\n\r\nhello",
	"Content-Type: %M\r\nContent-Length: 5\r\nX-After-1: a\r\nX-After-2: b\r\nX-After-3: c\r\n\r\nhello",
	"Content-Length: 5\r\nContent-Type: %M\r\nX-Long: %L\r\n\r\nhello",
	"X-Long: %L\r\nContent-Length: 5\r\nContent-Type: %M\r\n\r\nhello",
	"Content-Length: 12\r\nContent-Type: %M\r\nX-Pad: %L\r\nX-More: %L\r\n\r\nhello, world",
}

func encodeRef(fs framingSpec, recs [][]byte, vary *rt.Source) []byte {
	var sb bytes.Buffer
	for _, rec := range recs {
		switch fs.Kind {
		case "split":
			sb.Write(rec)
			sb.WriteByte(byte(fs.Split))
		case "hdr":
			// the documented format fixes neither the order of the fields nor
			// their spelling, and allows unknown fields: vary all three
			ct, cl := "Content-Type", "Content-Length"
			variant := 0
			if vary != nil {
				variant = vary.Int("hdrvariant", 8)
			}
			if variant == 6 {
				ct, cl = "content-type", "CONTENT-LENGTH"
			}
			ctLine := ""
			if fs.Mime != "" {
				ctLine = fmt.Sprintf("%s: %s\r\n", ct, fs.Mime)
			}
			clLine := fmt.Sprintf("%s: %d\r\n", cl, len(rec))
			switch variant {
			case 1, 6:
				sb.WriteString(clLine + ctLine)
			case 2:
				sb.WriteString(clLine + "X-Trace: 0123456789abcdef\r\n" + ctLine)
			case 3:
				sb.WriteString("X-First: 1\r\n" + ctLine + clLine + "X-Last: 2\r\n")
			case 4:
				sb.WriteString(clLine + ctLine + "X-Pad: " + strings.Repeat("p", 200) + "\r\n")
			default:
				sb.WriteString(ctLine + clLine)
			}
			sb.WriteString("\r\n")
			sb.Write(rec)
		case "json":
			sb.Write(rec)
		}
	}
	return sb.Bytes()
}

func newRef(fs framingSpec, stream []byte) refDecoder {
	switch fs.Kind {
	case "split":
		return &refSplit{s: stream, b: byte(fs.Split)}
	case "hdr":
		return &refHdr{s: stream, mime: fs.Mime, strict: fs.Strict}
	}
	return &refJSON{s: stream}
}

func scenarioC12(r *Run) {
	g := r.Gen
	r.Sim.SetStrategy(rt.Uniform, 0, nil)
	fs := pickFraming(r, false)
	// a valid base stream
	n := g.Int("nrecords", 5)
	var recs [][]byte
	for i := 0; i < n; i++ {
		l := g.Int("len", 24)
		if g.Chance("long", 0.2) {
			l = 4090 + g.Int("len", 12)
		}
		seed := uint32(g.Int("content", 1<<16))
		if fs.JSON {
			switch g.Int("jsonkind", 6) {
			case 0:
				recs = append(recs, []byte([]string{"12", "-0.5e3", "true", "null", `"sé\"x"`, "0"}[g.Int("scalar", 6)]+" "))
			default:
				recs = append(recs, genJSONRecord(r, l, seed))
			}
		} else {
			recs = append(recs, fill(l, seed, fs.Split))
		}
	}
	stream := encodeRef(fs, recs, g)
	mutation := "none"
	w := []int{1, 8, 3, 1, 2, 0, 1}
	if fs.Kind == "hdr" {
		w[5] = 5
	}
	switch g.Weighted("mutation", w) {
	case 1:
		if len(stream) > 0 {
			k := g.Int("truncat", len(stream))
			stream = stream[:k]
			mutation = fmt.Sprintf("truncated at byte %d", k)
			r.Fault("truncate")
		}
	case 2:
		if len(stream) > 0 {
			k := g.Int("flipat", len(stream))
			stream = append([]byte(nil), stream...)
			old := stream[k]
			stream[k] = fuzzByte(g.Int("flipto", 16), fs)
			mutation = fmt.Sprintf("byte %d changed %q -> %q", k, old, stream[k])
			r.Fault("byte-flip")
		}
	case 3:
		k := g.Int("insat", len(stream)+1)
		b := fuzzByte(g.Int("insbyte", 16), fs)
		stream = append(append(append([]byte(nil), stream[:k]...), b), stream[k:]...)
		mutation = fmt.Sprintf("byte %q inserted at %d", b, k)
		r.Fault("byte-insert")
	case 4:
		if len(stream) > 0 {
			k := g.Int("delat", len(stream))
			stream = append(append([]byte(nil), stream[:k]...), stream[k+1:]...)
			mutation = fmt.Sprintf("byte %d deleted", k)
			r.Fault("byte-delete")
		}
	case 5:
		h := strings.ReplaceAll(advHeaders[g.Int("advheader", len(advHeaders))], "%M", fs.Mime)
		if g.Chance("boundarylength", 0.35) {
			// a declared length around a power-of-two boundary, or a long digit string
			var n big.Int
			if g.Chance("digitstring", 0.3) {
				digits := 1 + g.Int("ndigits", 25)
				var sb strings.Builder
				for i := 0; i < digits; i++ {
					sb.WriteByte(byte('0' + g.Int("digit", 10)))
				}
				n.SetString(sb.String(), 10)
			} else {
				k := []uint{7, 15, 16, 31, 32, 53, 62, 63, 64, 65, 127}[g.Int("pow", 11)]
				n.Lsh(big.NewInt(1), k)
				n.Add(&n, big.NewInt(int64(g.Int("delta", 5)-2)))
			}
			h = fmt.Sprintf("Content-Length: %s\r\nContent-Type: %s\r\n\r\nabc", n.String(), fs.Mime)
		}
		if strings.Contains(h, "%L") {
			h = strings.ReplaceAll(h, "%L", strings.Repeat("x", []int{10, 3000, 4090, 5000}[g.Int("longfield", 4)]))
		}
		// splice the adversarial message before, between or after valid messages
		k := g.Int("spliceat", len(recs)+1)
		stream = append(append(encodeRef(fs, recs[:k], g), h...), encodeRef(fs, recs[k:], g)...)
		mutation = fmt.Sprintf("adversarial header %q spliced in as message %d", h, k)
		r.Fault("adversarial-header")
	case 6:
		l := g.Int("randlen", 40)
		stream = make([]byte, l)
		for i := range stream {
			stream[i] = fuzzByte(g.Int("randbyte", 16), fs)
		}
		mutation = "random stream over the framing's alphabet"
		r.Fault("random-stream")
	}
	st := NewSimStream(r)
	st.buf = append([]byte(nil), stream...)
	st.closed = true
	policy := configureStream(r, st, len(stream))
	ch := fs.F(st, nopWC{})
	r.Sample = map[string]any{"framing": fs.Name, "stream": preview(stream), "stream_length": len(stream), "mutation": mutation, "fragmentation": policy}
	r.extra = rt.HashString(fs.Name+string(stream)+policy) | 1

	ref := newRef(fs, stream)
	r.Sim.Spawn("a-recv", func() { recvAgainstRef(r, fs, ch, ref, stream, len(recs)+6) })
	r.RunQ()
}

func fuzzByte(k int, fs framingSpec) byte {
	alpha := []byte{'\n', '\r', ':', ' ', '0', '9', '-', '+', '{', '}', '[', ']', '"', '\\', 'C', ','}
	if fs.Kind == "split" && k == 0 {
		return byte(fs.Split)
	}
	return alpha[k%len(alpha)]
}

func recvAgainstRef(r *Run, fs framingSpec, ch channel.Channel, ref refDecoder, stream []byte, maxCalls int) {
	tail := false // position unknown: only "no fabricated bytes" is judged
	ended := 0
	for i := 0; i < maxCalls; i++ {
		exp := expect{Kind: xUnspec}
		if !tail {
			exp = ref.Next()
		}
		data, err := ch.Recv()
		data = append([]byte(nil), data...)
		r.Ev("recv", fs.Name, i, exp.Kind, fmt.Sprintf("%s | %v | expect %s", preview(data), err, exp.Why))
		same := func(rec []byte) bool {
			if fs.JSON && string(bytes.TrimSpace(rec)) == "null" && len(data) == 0 {
				return true
			}
			return bytes.Equal(data, rec)
		}
		switch exp.Kind {
		case xRecord:
			if err == nil && !same(exp.Rec) {
				r.Fail("fabricated-or-altered-record", "%s: Recv %d returned %s, the stream's next record is %s", fs.Name, i, preview(data), preview(exp.Rec))
				return
			}
			if err == io.EOF && len(data) != 0 && same(exp.Rec) {
				break // the last record handed over together with the end of the stream
			}
			if err != nil {
				if len(data) != 0 && !same(exp.Rec) {
					r.Fail("fabricated-or-altered-record", "%s: Recv %d returned %s with error %v, the stream's next record is %s", fs.Name, i, preview(data), err, preview(exp.Rec))
					return
				}
				// Up to here the stream is well formed by the documented format (the
				// reference would have abstained otherwise): field names in any case,
				// unknown fields, any field order, an absent Content-Type for
				// Header/LSP are all to be accepted, so refusing the record breaks
				// the documented rules.
				r.Fail("valid-record-refused", "%s: Recv %d failed with %v although the stream holds the well-formed record %s at this point", fs.Name, i, err, preview(exp.Rec))
				return
			}
		case xRecordErr:
			if err == nil {
				r.Fail("content-type-policy", "%s: Recv %d accepted record %s without error although %s", fs.Name, i, preview(data), exp.Why)
				return
			}
			if len(data) != 0 && !same(exp.Rec) {
				r.Fail("fabricated-or-altered-record", "%s: Recv %d returned %s with %v, the record is %s", fs.Name, i, preview(data), err, preview(exp.Rec))
				return
			}
			if len(data) == 0 {
				tail = true
			}
		case xError:
			if err == nil {
				cls := "fabricated-or-altered-record"
				if exp.Partial != nil || strings.Contains(exp.Why, "ends inside") || strings.Contains(exp.Why, "exceeds") {
					cls = "truncated-record-without-error"
				}
				r.Fail(cls, "%s: Recv %d returned %s without error although %s", fs.Name, i, preview(data), exp.Why)
				return
			}
			// With the error reported, a framing may hand over what did arrive of the
			// cut-off record - all of it: a part of what arrived would be a
			// shortened record - or nothing.
			if len(data) != 0 && !bytes.Equal(exp.Partial, data) {
				r.Fail("shortened-final-record", "%s: Recv %d returned %s with %v; of the unterminated final record the stream holds %s, which must not be shortened", fs.Name, i, preview(data), err, preview(exp.Partial))
				return
			}
		case xEnd:
			if err == nil || len(data) != 0 {
				r.Fail("recv-after-exhaustion-succeeded", "%s: Recv %d returned (%s, %v) although the stream is exhausted", fs.Name, i, preview(data), err)
				return
			}
			ended++
			if ended >= 3 {
				return
			}
		case xRecordOpt:
			tail = true
			if err == io.EOF && len(data) == 0 {
				// the value may be reported as cut off, but not dropped: a clean end
				// of stream says that nothing was there
				r.Fail("truncated-record-without-error", "%s: Recv %d reported a clean end of stream (io.EOF) although the stream holds %s at this point (%s)", fs.Name, i, preview(exp.Rec), exp.Why)
				return
			}
			if err == nil && !same(exp.Rec) {
				r.Fail("fabricated-or-altered-record", "%s: Recv %d returned %s without error; the header declares the %d-byte record %s (%s)", fs.Name, i, preview(data), len(exp.Rec), preview(exp.Rec), exp.Why)
				return
			}
			if err != nil && len(data) != 0 && !same(exp.Rec) {
				r.Fail("fabricated-or-altered-record", "%s: Recv %d returned %s with %v; the declared record is %s", fs.Name, i, preview(data), err, preview(exp.Rec))
				return
			}
		case xUnspec:
			tail = true
			if len(data) != 0 && !bytes.Contains(stream, bytes.TrimSpace(data)) {
				r.Fail("fabricated-or-altered-record", "%s: Recv %d returned %s, which is not a contiguous part of the stream", fs.Name, i, preview(data))
				return
			}
			if err != nil {
				ended++
				if ended >= 3 {
					return
				}
			}
		}
	}
}
