package verifh

import (
	"context"
	"encoding/json"
	"errors"
	"fmt"
	"io"
	"sort"
	"strconv"
	"strings"
	"time"

	"github.com/creachadair/jrpc2"
	rt "github.com/creachadair/jrpc2/verifrt"
)

// ---------------------------------------------------------------------------
// Workload model for the server-side family (C01, C03, C06, C07, C08, C09, C10)

type mkind int

const (
	mCall        mkind = iota // valid call to a known method
	mNote                     // valid notification to a known method
	mUnknownCall              // call to an unknown method
	mUnknownNote              // notification to an unknown method
	mRPCInfo                  // call to rpc.serverInfo
	mRPCOther                 // call to a reserved rpc.* name
	mInvalid                  // single-defect invalid member
	mReply                    // reply-shaped member (for push workloads)
)

func (k mkind) String() string {
	return [...]string{"call", "note", "unknown-call", "unknown-note", "rpc.serverInfo", "rpc.other", "invalid", "reply"}[k]
}

type hscript struct {
	Steps      int  // internal yield steps, each polling ctx.Err()
	Hold       bool // wait for a release by the workload
	RespectCtx bool // a cancelled context ends the hold
	Outcome    int  // 0 result, 1 application error, 2 ctx.Err() if cancelled else result
	ErrCode    int  // code of the application error (Outcome 1); also codes the protocol reserves
	Push       int  // 0 none, 1 Notify, 2 Callback from inside the handler
	CancelID   string
	ErrData    bool // the application error carries data
}

type ctxObs struct {
	Seq int
	Err string
}

type member struct {
	Msg, Idx int
	Kind     mkind
	ID       string // raw id text, "" if none
	EchoID   string // id expected in an error reply ("null" if unresolvable)
	Tag      string
	Raw      string
	Defect   string
	Script   hscript

	// observations
	Enters   int
	Enter    int // event sequence number, -1 if never
	Exit     int
	Logged   int // LogRequest seq (-1)
	CtxObs   []ctxObs
	Holding  bool
	Released bool
	Result   string // what the handler returned (for matching)
	ReplyExpected bool // reply-shaped member on a push-disabled server: answered as an invalid request
	DupOf    *member // a call that bears the id of this earlier call (of an earlier message)
	HErr     string
}

func (m *member) executable() bool {
	return m.Kind == mCall || m.Kind == mNote || m.Kind == mRPCInfo
}
func (m *member) isNote() bool  { return m.Kind == mNote || m.Kind == mUnknownNote }
func (m *member) hasHandler() bool { return m.Kind == mCall || m.Kind == mNote }

// wantsReply reports whether the member must produce a response object.
func (m *member) wantsReply() bool {
	switch m.Kind {
	case mNote, mUnknownNote:
		return false
	case mReply:
		return m.ReplyExpected
	}
	return true
}

type message struct {
	Idx     int
	Batch   bool
	Garbage bool // not valid JSON at all
	Empty   bool // "[]"
	Members []*member
	Raw     string
	Gate    bool // the peer waits for the workload to open the gate before sending
	Open    bool
	WithEOF bool // delivered to the server together with io.EOF (a final record)
	Sent    int // seq of peer send (-1)
	Arrive  int // seq of the server's Recv return (-1)
}

type outRec struct {
	Seq     int // seq at Send entry
	EndSeq  int
	Raw     string
	Array   bool
	Objs    []respObj
	BadJSON bool
	matched bool
}

type respObj struct {
	ID      string
	HasRes  bool
	Result  string
	HasErr  bool
	Code    int
	Message string
	Data    string
	Version string
	Method  string // non-empty: this is a pushed request, not a response
	Params  string
}

type actKind int

const (
	aCancel actKind = iota
	aStop
	aNotify
	aCallback
	aBaseCancel // the base context supplied through ServerOptions.NewContext ends
)

type action struct {
	Kind   actKind
	ID     string // for cancel
	Gate   bool
	Open   bool
	Delay  int
	Invoke int
	Return int
	Done   bool
	Err    string
	Tag    string
	// push actions
	CtxKind   int // 0 background, 1 cancelled by the workload, 2 deadline on the fake clock, 3 already cancelled when invoked
	ClockFired bool  // kind 2: the deadline expired at a moment the workload did not choose
	Cause     bool   // kinds 1 and 3: cancelled with a custom cause (the result is context.Canceled all the same)
	Method    string // method name of the push
	CancelSeq int // seq at which the workload cancelled / the deadline fired (-1)
	CancelEnd int
	cancel    func()
	Result    string
	ErrCode   int
	ErrData   string
	ErrV      error
	FromH     *member // issued from inside this handler (nil: outside task)
	Twice     bool    // Stop called twice
}

// A pushed request as seen by the peer.
type pushRec struct {
	Seq    int
	ID     string // "" for notifications
	Method string
	Tag    string
	Act    *action
	Plan   int // reply plan: 0 now, 1 at a gate, 2 never, 3 now + duplicate, 4 at a gate, after an unknown-id reply
	Open   bool
	Replies []peerReply
}

type peerReply struct {
	Seq     int    // seq at which the peer sent it
	Arrive  int    // seq at which the server's Recv returned it (-1)
	Payload string // unique
	Raw     string
	IsErr   bool
	Defect  bool // a member with one structural defect (id still resolvable)
	Code    int  // error code of an error reply
	Result  string // exact result text of a result reply ("" not recorded)
	ForID   string // client side: the id the reply bears
}

type srvWorld struct {
	r    *Run
	cfg  srvCfg
	K    int
	push bool
	srv  *jrpc2.Server
	sEnd *End
	pEnd *End

	msgs    []*message
	byTag   map[string]*member
	acts    []*action
	out     []*outRec
	running int
	maxRun  int

	peerIn    []string
	peerEOF   bool
	pushed    []*pushRec
	outbox    []string // replies the peer will send (FIFO)
	nreply    int
	releaseAll bool
	deadlines []*action
	closeAfter int // peer closes after sending this many messages (-1: at the end)
	postStop  bool
	restartOut []*outRec
	closeGate bool
	stopSeq   int // seq at which a stop cause was first invoked (-1)
	stopDone  int // seq at which an explicit Stop() first returned (-1)
	causes    []stopCause
	arrScan   int
	started   bool
	eofFaultSeq int // seq at which a data+EOF fault fired (0: never)
	optK       int  // value of the Concurrency option (0: unset)
	bigK       bool
	restartEnd *End // if set, the server is started on this end as soon as WaitStatus returns
	restarted  bool
	activeAtRestart string
	restartSeq int // seq at which the server was started again on a fresh channel (-1)
	qpoints   []int // sequence numbers of the quiescent points seen so far
	status    *jrpc2.ServerStatus
	observers []*statusObs // further WaitStatus / Wait callers (C08)
	baseCtx       context.Context // base context handed to the server (nil: the default)
	baseCancel    func()
	baseCancelSeq int
	waitSeq   int
}

// A stopCause is something that ends the server: Stop(), the peer closing, an
// injected Recv failure. Begin/End bracket the event in sequence numbers.
type stopCause struct {
	Kind       string // "stopped", "closed", "error"
	Begin, End int
	Optional   bool // an event that may, but need not, end the connection (a failed Send)
	Consequence bool // client side: the peer hanging up because it saw the client's end closed
}

type srvCfg struct {
	Prop         string
	MaxMsgs      int
	MaxBatch     int
	IDPool       int  // 0: unique ids; n: ids drawn from a pool of n
	Invalid      bool // generate invalid members, garbage and []
	Unknown      bool
	Cancels      int // max CancelRequest actions
	PushFromH    bool
	HoldP        float64
	NoteP        float64
	KMax         int
	RPCInfo      bool
	SeqIDs       bool    // unique ids 1,2,3,... (collide with callback ids)
	AnswerAll    bool    // the peer answers every callback (never leaves one pending for good)
	Layout       bool    // white space around and inside inbound messages
	BigK         bool    // sometimes a large Concurrency with more than that many single held calls
	Pushes       int     // max push actions (Notify/Callback)
	Stops        int     // max Stop() actions
	ForcePush    bool    // AllowPush always on
	ReplyShaped  bool    // generate reply-shaped inbound members (unsolicited replies)
	FaultP       float64 // probability that a channel fault is scripted on the server end
	EarlyCloseP  float64 // probability that the peer closes before having sent everything
	PostStop     bool    // keep sending records after the stop
	FoldReplies  bool    // the peer may put a callback reply and its next requests into one array
	DupIDs       bool    // now and then a call of a batch reuses the id of a call of an earlier message
	BaseCtx      bool    // sometimes the server gets a base context (NewContext) that the workload ends
}

func (w *srvWorld) seq() int { return len(w.r.Sim.Events) }

// ---------------------------------------------------------------------------
// generation

func (w *srvWorld) genID(n int) string {
	g := w.r.Gen
	if w.cfg.IDPool > 0 {
		// a small pool so that reuse is frequent; it holds a number and a string
		// with the same digits, which are different ids (numbers that are equal in
		// value but spelt differently, 1 and 1.0, are left out: whether they are
		// one id is not settled by the property)
		pool := []string{`1`, `2`, `"1"`, `3`, `"2"`, `9007199254740992`, `9007199254740993`, `4`}
		n := w.cfg.IDPool
		if n > len(pool) {
			n = len(pool)
		}
		return pool[g.Int("idpool", n)]
	}
	if w.cfg.SeqIDs {
		return strconv.Itoa(n)
	}
	switch g.Weighted("idform", []int{6, 3, 1, 1, 1, 1}) {
	case 4:
		// beyond 2^53: not representable as a float64
		return strconv.FormatInt(9007199254740993+int64(n)*2, 10)
	case 5:
		// a string that needs escaping (written the way encoding/json writes it)
		return fmt.Sprintf(`"é \"q\" \\ %d"`, n)
	case 1:
		return fmt.Sprintf(`"s%d"`, n)
	case 2:
		return fmt.Sprintf(`-%d`, n)
	case 3:
		return fmt.Sprintf(`%d.5`, n)
	}
	return strconv.Itoa(100 + n)
}

var invalidDefects = []string{"version", "noversion", "method-type", "params-scalar", "id-type", "extra", "non-object", "empty-method", "mixed"}

func (w *srvWorld) genScript() hscript {
	g := w.r.Gen
	s := hscript{Steps: g.Int("hsteps", 4)}
	s.Hold = g.Chance("hold", w.cfg.HoldP)
	s.RespectCtx = g.Chance("respect", 0.5)
	// 0 result, 1 application error, 2 ctx.Err() if cancelled else result,
	// 3 a pre-encoded result that is not valid JSON, 4 a pre-encoded result with inner line breaks
	// 5 a nil result (must be answered "result":null), 6 a result of ~100 kB
	// 7 an error that is not a *jrpc2.Error; outcome 1 may carry error data
	s.Outcome = g.Weighted("outcome", []int{6, 3, 2, 1, 1, 1, 1, 1})
	s.ErrData = g.Chance("errdata", 0.4)
	// a handler may return any code, including the ones the protocol uses itself
	s.ErrCode = []int{0, 0, 0, -32600, -32700, -32602, -32603, -32601}[g.Int("errcode", 8)]
	return s
}

func (w *srvWorld) genMember(mi, idx, n int) *member {
	g := w.r.Gen
	m := &member{Msg: mi, Idx: idx, Enter: -1, Exit: -1, Logged: -1}
	m.Tag = fmt.Sprintf("m%d.%d", mi, idx)
	weights := []int{10, 0, 0, 0, 0, 0, 0, 0}
	if w.cfg.ReplyShaped {
		weights[7] = 3
	}
	weights[1] = int(w.cfg.NoteP * 20)
	if w.cfg.Unknown {
		weights[2], weights[3], weights[5] = 2, 1, 1
	}
	if w.cfg.RPCInfo {
		weights[4] = 2
	}
	if w.cfg.Invalid {
		weights[6] = 4
	}
	m.Kind = mkind(g.Weighted("mkind", weights))
	params := fmt.Sprintf(`{"t":%q}`, m.Tag)
	switch m.Kind {
	case mCall:
		m.ID = w.genID(n)
		m.Script = w.genScript()
		m.Raw = fmt.Sprintf(`{"jsonrpc":"2.0","id":%s,"method":"h","params":%s}`, m.ID, params)
	case mNote:
		m.Script = w.genScript()
		if g.Chance("nullid", 0.1) {
			m.Raw = fmt.Sprintf(`{"jsonrpc":"2.0","id":null,"method":"h","params":%s}`, params)
		} else {
			m.Raw = fmt.Sprintf(`{"jsonrpc":"2.0","method":"h","params":%s}`, params)
		}
	case mUnknownCall:
		m.ID = w.genID(n)
		m.Raw = fmt.Sprintf(`{"jsonrpc":"2.0","id":%s,"method":"nope","params":%s}`, m.ID, params)
	case mUnknownNote:
		m.Raw = fmt.Sprintf(`{"jsonrpc":"2.0","method":"nope","params":%s}`, params)
	case mRPCInfo:
		m.ID = w.genID(n)
		m.Raw = fmt.Sprintf(`{"jsonrpc":"2.0","id":%s,"method":"rpc.serverInfo"}`, m.ID)
	case mRPCOther:
		m.ID = w.genID(n)
		m.Raw = fmt.Sprintf(`{"jsonrpc":"2.0","id":%s,"method":"rpc.other"}`, m.ID)
	case mReply:
		// an unsolicited reply; its id may or may not name an outstanding callback
		m.ID = strconv.Itoa(1 + g.Int("strayid", 5))
		m.EchoID = m.ID
		m.Raw = fmt.Sprintf(`{"jsonrpc":"2.0","id":%s,"result":{"r":"stray-%s"}}`, m.ID, m.Tag)
	case mInvalid:
		withID := g.Chance("invid", 0.6)
		id := ""
		if withID {
			id = w.genID(n)
			if w.cfg.SeqIDs {
				// ids that cannot collide with a callback id: a member that is not a
				// valid request and bears the id of a pending callback is taken for
				// that callback's reply by the library (a corner no claimed property
				// settles; see DESIGN.md 11.7)
				id = fmt.Sprintf(`"x%d"`, n)
			}
		}
		m.ID = id
		m.EchoID = id
		if id == "" {
			m.EchoID = "null"
		}
		idf := ""
		if id != "" {
			idf = `"id":` + id + `,`
		}
		m.Defect = invalidDefects[g.Int("defect", len(invalidDefects))]
		switch m.Defect {
		case "version":
			m.Raw = fmt.Sprintf(`{"jsonrpc":"1.0",%s"method":"h","params":%s}`, idf, params)
		case "noversion":
			m.Raw = fmt.Sprintf(`{%s"method":"h","params":%s}`, idf, params)
		case "method-type":
			m.Raw = fmt.Sprintf(`{"jsonrpc":"2.0",%s"method":17,"params":%s}`, idf, params)
		case "params-scalar":
			m.Raw = fmt.Sprintf(`{"jsonrpc":"2.0",%s"method":"h","params":"%s"}`, idf, m.Tag)
		case "id-type":
			m.ID, m.EchoID = "", "null"
			m.Raw = fmt.Sprintf(`{"jsonrpc":"2.0","id":%s,"method":"h","params":%s}`, []string{"true", "[1]", `{"a":1}`}[g.Int("badid", 3)], params)
		case "extra":
			m.Raw = fmt.Sprintf(`{"jsonrpc":"2.0",%s"method":"h","params":%s,"x%s":1}`, idf, params, strings.ReplaceAll(m.Tag, ".", "_"))
		case "non-object":
			m.ID, m.EchoID = "", "null"
			m.Raw = []string{`17`, `"str"`, `true`, `[1,2]`}[g.Int("nonobj", 4)]
		case "empty-method":
			m.Raw = fmt.Sprintf(`{"jsonrpc":"2.0",%s"method":"","params":%s}`, idf, params)
		case "mixed":
			m.Raw = fmt.Sprintf(`{"jsonrpc":"2.0",%s"method":"h","result":1}`, idf)
		}
	}
	return m
}

func (w *srvWorld) generate() {
	g := w.r.Gen
	nm := 1 + g.Int("nmsgs", w.cfg.MaxMsgs)
	if w.bigK {
		// more single held calls than the limit: all but two must be running at once
		for mi := 0; mi < w.K+2; mi++ {
			m := &member{Msg: mi, Kind: mCall, ID: strconv.Itoa(1000 + mi), Tag: fmt.Sprintf("m%d.0", mi), Enter: -1, Exit: -1, Logged: -1}
			m.Script = hscript{Hold: true}
			m.Raw = fmt.Sprintf(`{"jsonrpc":"2.0","id":%s,"method":"h","params":{"t":%q}}`, m.ID, m.Tag)
			w.msgs = append(w.msgs, &message{Idx: mi, Members: []*member{m}, Raw: m.Raw, Sent: -1, Arrive: -1})
			w.byTag[m.Tag] = m
		}
		return
	}
	n := 0
	dupTaken := map[*member]bool{}
	for mi := 0; mi < nm; mi++ {
		msg := &message{Idx: mi, Sent: -1, Arrive: -1}
		msg.Gate = g.Chance("msggate", 0.3)
		if w.cfg.Invalid && g.Chance("garbage", 0.06) {
			if g.Chance("emptybatch", 0.5) {
				msg.Empty, msg.Raw = true, "[]"
			} else {
				msg.Garbage, msg.Raw = true, []string{`{"jsonrpc":`, `bogus`, `[1,`, `{"a" "b"}`}[g.Int("garbagekind", 4)]
			}
			w.msgs = append(w.msgs, msg)
			continue
		}
		msg.Batch = g.Chance("batch", 0.45)
		k := 1
		if msg.Batch {
			k = 1 + g.Int("nmembers", w.cfg.MaxBatch)
		}
		var parts []string
		for i := 0; i < k; i++ {
			n++
			m := w.genMember(mi, i, n)
			if w.cfg.DupIDs && msg.Batch && i > 0 && m.Kind == mCall {
				// now and then a call reuses the id of a call of an earlier message;
				// whether it is rejected as a duplicate depends on whether that one
				// is still in flight (C07's matter) - shape, grouping and order of
				// the replies do not. Its batch holds another request with an id of
				// its own, so that the reply record can be told apart.
				anchor := false
				for _, p := range msg.Members {
					if p.ID != "" && p.DupOf == nil && (p.Kind == mCall || p.Kind == mUnknownCall || p.Kind == mRPCInfo || p.Kind == mRPCOther) {
						anchor = true
					}
				}
				var earlier []*member
				for _, pm := range w.msgs {
					for _, p := range pm.Members {
						if p.Kind == mCall && p.DupOf == nil && p.ID != "" && !dupTaken[p] {
							earlier = append(earlier, p)
						}
					}
				}
				if anchor && len(earlier) > 0 && g.Chance("dupid", 0.35) {
					a := earlier[g.Int("dupof", len(earlier))]
					dupTaken[a] = true
					m.DupOf, m.ID = a, a.ID
					m.Raw = fmt.Sprintf(`{"jsonrpc":"2.0","id":%s,"method":"h","params":{"t":%q}}`, m.ID, m.Tag)
				}
			}
			if m.Kind == mReply {
				m.ReplyExpected = !w.push
			}
			if msg.Batch && m.Defect == "non-object" && m.Raw == `[1,2]` {
				// fine inside a batch too: an array member is a non-object member
			}
			msg.Members = append(msg.Members, m)
			w.byTag[m.Tag] = m
			parts = append(parts, m.Raw)
		}
		if msg.Batch {
			sep := ","
			if w.cfg.Layout {
				sep = []string{",", " , ", ",\n", "\t,"}[g.Int("layoutsep", 4)]
			}
			msg.Raw = "[" + strings.Join(parts, sep) + "]"
			if w.cfg.Layout && g.Chance("layoutinner", 0.3) {
				msg.Raw = "[ " + strings.Join(parts, sep) + "\n]"
			}
		} else {
			msg.Raw = parts[0]
			if msg.Members[0].Defect == "non-object" && strings.HasPrefix(msg.Raw, "[") {
				// a top-level array is a batch, not a non-object member: use a scalar
				msg.Members[0].Raw, msg.Raw = `17`, `17`
			}
		}
		if w.cfg.Layout && !(len(msg.Members) == 1 && msg.Members[0].Kind == mInvalid) {
			// JSON allows white space around the top-level value
			msg.Raw = []string{"", " ", "\n", "\t \r\n"}[g.Int("layoutpre", 4)] + msg.Raw + []string{"", " ", "\n"}[g.Int("layoutpost", 3)]
		}
		w.msgs = append(w.msgs, msg)
	}
	// CancelRequest actions
	nc := 0
	if w.cfg.Cancels > 0 {
		nc = g.Int("ncancel", w.cfg.Cancels+1)
	}
	var ids []string
	for _, m := range w.msgs {
		for _, mm := range m.Members {
			if mm.ID != "" {
				ids = append(ids, mm.ID)
			}
		}
	}
	var hm []*member
	for _, m := range w.msgs {
		for _, mm := range m.Members {
			if mm.hasHandler() {
				hm = append(hm, mm)
			}
		}
	}
	for i := 0; i < nc; i++ {
		a := &action{Kind: aCancel, Invoke: -1, Return: -1, CancelSeq: -1}
		if len(ids) > 0 && g.Chance("cancelknown", 0.85) {
			a.ID = ids[g.Int("cancelid", len(ids))]
		} else if w.cfg.Pushes > 0 && g.Chance("cancelcallbackid", 0.6) {
			// an id no inbound request may be using, but a callback of the server does
			a.ID = strconv.Itoa(1 + g.Int("cancelcbid", 4))
		} else {
			a.ID = "9999"
		}
		if len(hm) > 0 && g.Chance("cancelfromhandler", 0.25) {
			// CancelRequest issued by a handler (for another call, or for its own)
			a.FromH = hm[g.Int("cancelhandler", len(hm))]
			a.FromH.Script.Push = 1
		} else {
			a.Gate = g.Chance("actgate", 0.6)
			a.Delay = g.Int("actdelay", 30)
		}
		w.acts = append(w.acts, a)
	}
	np := 0
	if w.cfg.Pushes > 0 {
		np = g.Int("npush", w.cfg.Pushes+1)
	}
	for i := 0; i < np; i++ {
		a := &action{Kind: aNotify, Invoke: -1, Return: -1, CancelSeq: -1, Tag: fmt.Sprintf("p%d", i)}
		if g.Chance("iscallback", 0.7) {
			a.Kind = aCallback
			a.CtxKind = g.Weighted("pushctx", []int{4, 3, 2, 1})
			a.Cause = g.Chance("pushcause", 0.3)
		}
		// names that need JSON escaping travel unchanged
		a.Method = []string{"push", "push", "push/sub.method", "p\"q\\r", "m\u00e9thode \n"}[g.Int("pushmethod", 5)]
		if len(hm) > 0 && g.Chance("pushfromhandler", 0.5) {
			a.FromH = hm[g.Int("pushhandler", len(hm))]
			a.FromH.Script.Push = 1
		} else {
			a.Gate = g.Chance("actgate", 0.5)
			a.Delay = g.Int("actdelay", 30)
		}
		w.acts = append(w.acts, a)
	}
	if w.cfg.BaseCtx && g.Chance("basectx", 0.35) {
		w.baseCtx, w.baseCancel = context.WithCancel(context.Background())
		if g.Chance("basecancel", 0.6) {
			a := &action{Kind: aBaseCancel, Invoke: -1, Return: -1, CancelSeq: -1}
			a.Gate = g.Chance("actgate", 0.6)
			a.Delay = g.Int("actdelay", 40)
			w.acts = append(w.acts, a)
		}
	}
	ns := 0
	if w.cfg.Stops > 0 {
		ns = g.Int("nstop", w.cfg.Stops+1)
	}
	for i := 0; i < ns; i++ {
		a := &action{Kind: aStop, Invoke: -1, Return: -1, CancelSeq: -1, Twice: g.Chance("stoptwice", 0.2)}
		if len(hm) > 0 && g.Chance("stopfromhandler", 0.25) {
			a.FromH = hm[g.Int("stophandler", len(hm))]
			a.FromH.Script.Push = 1
		} else {
			a.Gate = g.Chance("actgate", 0.6)
			a.Delay = g.Int("stopdelay", 60)
		}
		w.acts = append(w.acts, a)
	}
}

// ---------------------------------------------------------------------------
// handlers

type tagParams struct {
	T string `json:"t"`
}

// Assign implements jrpc2.Assigner.
func (w *srvWorld) Assign(ctx context.Context, method string) jrpc2.Handler {
	if method == "h" {
		return w.handle
	}
	return nil
}

// Names implements jrpc2.Namer.
func (w *srvWorld) Names() []string { return []string{"h"} }

func (w *srvWorld) handle(ctx context.Context, req *jrpc2.Request) (any, error) {
	var p tagParams
	req.UnmarshalParams(&p)
	m := w.byTag[p.T]
	if m == nil {
		// a request outside the generated workload (restart probe)
		return map[string]any{"tag": p.T}, nil
	}
	r := w.r
	m.Enters++
	w.running++
	if w.running > w.maxRun {
		w.maxRun = w.running
	}
	if m.Enter < 0 {
		m.Enter = w.seq()
	}
	r.Ev("h.enter", m.Tag, w.running, m.Enters, "")
	if w.running > w.K && w.cfg.Prop == "C06" {
		r.Fail("over-limit", "%d handlers running with Concurrency=%d (entering %s)", w.running, w.K, m.Tag)
	}
	poll := func() {
		e := ""
		if err := ctx.Err(); err != nil {
			e = err.Error()
		}
		m.CtxObs = append(m.CtxObs, ctxObs{w.seq(), e})
		if e != "" {
			r.Ev("h.ctx", m.Tag, 0, 0, e)
		}
	}
	poll()
	for i := 0; i < m.Script.Steps; i++ {
		rt.Yield("h:step")
		poll()
	}
	if m.Script.Push != 0 && w.srv != nil {
		w.doPush(ctx, m)
	}
	if m.Script.Hold {
		m.Holding = true
		r.Ev("h.hold", m.Tag, 0, 0, "")
		respect := m.Script.RespectCtx
		rt.Block("h:hold", func() bool { return m.Released || w.releaseAll || (respect && ctx.Err() != nil) })
		m.Holding = false
		poll()
	}
	var val any
	var err error
	switch m.Script.Outcome {
	case 1:
		if m.Script.ErrCode == 0 {
			m.Script.ErrCode = 7000 + m.Msg
		}
		e := jrpc2.Errorf(jrpc2.Code(m.Script.ErrCode), "app error %s", m.Tag)
		if m.Script.ErrData {
			e = e.WithData(map[string]any{"d": m.Tag, "n": []int{1, 2}})
		}
		err = e
	case 7:
		err = fmt.Errorf("plain failure %s: %w", m.Tag, io.ErrUnexpectedEOF)
	case 2:
		if e := ctx.Err(); e != nil {
			err = e
		}
	}
	switch {
	case err != nil:
		m.HErr = err.Error()
	case m.Script.Outcome == 3:
		// a result that cannot be encoded: the call must be answered with an error
		val = json.RawMessage(fmt.Sprintf(`{"n":%d,"tag":%q,`, m.Enters, m.Tag))
		m.HErr = "unencodable result"
	case m.Script.Outcome == 5:
		val = nil
		m.Result = "null"
	case m.Script.Outcome == 6:
		pad := strings.Repeat("0123456789", 10000)
		val = map[string]any{"tag": m.Tag, "n": m.Enters, "pad": pad}
		m.Result = fmt.Sprintf(`{"n":%d,"pad":%q,"tag":%q}`, m.Enters, pad, m.Tag)
	case m.Script.Outcome == 4:
		val = json.RawMessage(fmt.Sprintf("{\n  \"n\": %d,\n\t\"tag\": %q\n}", m.Enters, m.Tag))
		m.Result = fmt.Sprintf(`{"n":%d,"tag":%q}`, m.Enters, m.Tag)
	default:
		val = map[string]any{"tag": m.Tag, "n": m.Enters}
		m.Result = fmt.Sprintf(`{"n":%d,"tag":%q}`, m.Enters, m.Tag)
	}
	w.running--
	m.Exit = w.seq()
	r.Ev("h.exit", m.Tag, w.running, 0, m.HErr)
	return val, err
}

func (w *srvWorld) doPush(ctx context.Context, m *member) {
	for _, a := range w.acts {
		if a.FromH == m {
			w.perform(ctx, a)
		}
	}
}

// LogRequest implements jrpc2.RPCLogger. When the library calls it relative to
// slot acquisition or handler start is its own business: the call is recorded
// and no rule is based on it.
func (w *srvWorld) LogRequest(ctx context.Context, req *jrpc2.Request) {
	w.r.Ev("log.req", req.Method(), w.running, 0, req.ID())
}

// replySeq returns the sequence number at which the server passed to Send the
// record that answers the request with this (unique) id, -1 if it has not.
func (w *srvWorld) replySeq(id string) int {
	if id == "" {
		return -1
	}
	for _, o := range w.out {
		for _, ob := range o.Objs {
			if ob.Method == "" && ob.ID == id {
				return o.Seq
			}
		}
	}
	return -1
}

// repliedWithResult: the request with this id was answered with a result
// (not with an error, such as a cancellation while it waited for a slot).
func (w *srvWorld) repliedWithResult(id string) bool {
	for _, o := range w.out {
		for _, ob := range o.Objs {
			if ob.Method == "" && ob.ID == id && ob.HasRes {
				return true
			}
		}
	}
	return false
}

// infoStarted: the built-in rpc.serverInfo has no handler to observe. It has
// certainly run once its reply is on the wire; inside a batch whose reply is
// still held back by a sibling it is taken to have started with that sibling.
func (w *srvWorld) infoStarted(msg *message, m *member) bool {
	if w.replySeq(m.ID) >= 0 {
		return true
	}
	for _, sib := range msg.Members {
		if sib != m && sib.Enter >= 0 {
			return true
		}
	}
	return false
}

// checkInfoOverLimit (C06, at a quiescent point): all K slots are held by
// handlers that have been running since T; a single rpc.serverInfo request that
// arrived after T and has been answered ran while they held every slot.
func (w *srvWorld) checkInfoOverLimit() {
	if w.running < w.K {
		return
	}
	w.noteArrivals()
	t, n := -1, 0
	for _, msg := range w.msgs {
		for _, m := range msg.Members {
			if m.hasHandler() && m.Enter >= 0 && m.Exit < 0 {
				n++
				if m.Enter > t {
					t = m.Enter
				}
			}
		}
	}
	if n < w.K {
		return
	}
	for _, msg := range w.msgs {
		if len(msg.Members) != 1 || msg.Members[0].Kind != mRPCInfo || msg.Arrive < t {
			continue
		}
		if rs := w.replySeq(msg.Members[0].ID); rs >= 0 && w.repliedWithResult(msg.Members[0].ID) {
			w.r.Fail("over-limit", "built-in rpc.serverInfo (id %s) arrived at #%d and was answered at #%d while %d handlers, all running since #%d, held all %d slots", msg.Members[0].ID, msg.Arrive, rs, n, t, w.K)
			return
		}
	}
}

// LogResponse implements jrpc2.RPCLogger.
func (w *srvWorld) LogResponse(ctx context.Context, rsp *jrpc2.Response) {}

// ---------------------------------------------------------------------------
// tasks

func (w *srvWorld) peerSender() {
	next := 0
	for {
		var msg *message
		if next < len(w.msgs) {
			msg = w.msgs[next]
		}
		if w.closeAfter >= 0 && next >= w.closeAfter {
			msg = nil
		}
		early := w.closeAfter >= 0 && next >= w.closeAfter
		rt.Block("peer:next", func() bool {
			return len(w.outbox) > 0 || (msg != nil && (!msg.Gate || msg.Open)) || w.closeGate || early
		})
		if w.cfg.FoldReplies && len(w.outbox) > 0 && msg != nil && (!msg.Gate || msg.Open) && !msg.Garbage && !msg.Empty && len(msg.Members) > 0 && w.r.Sch.Chance("foldreply", 0.5) {
			// a client is free to put its answer to a callback and its next
			// requests into one array, in any position
			rep := w.outbox[0]
			w.outbox = w.outbox[1:]
			front := w.r.Sch.Chance("foldfront", 0.5)
			switch {
			case msg.Batch && front:
				i := strings.Index(msg.Raw, "[")
				msg.Raw = msg.Raw[:i+1] + rep + "," + msg.Raw[i+1:]
			case msg.Batch:
				i := strings.LastIndex(msg.Raw, "]")
				msg.Raw = msg.Raw[:i] + "," + rep + msg.Raw[i:]
			case front:
				msg.Raw, msg.Batch = "["+rep+","+msg.Raw+"]", true
			default:
				msg.Raw, msg.Batch = "["+msg.Raw+","+rep+"]", true
			}
			w.r.Probe("callback-reply-batched-with-requests")
			w.r.Ev("peer.fold", fmt.Sprint("msg", msg.Idx), 0, 0, rep)
		}
		switch {
		case len(w.outbox) > 0:
			raw := w.outbox[0]
			w.outbox = w.outbox[1:]
			w.r.Ev("peer.reply", "", 0, 0, raw)
			if err := w.pEnd.Send([]byte(raw)); err != nil {
				w.r.Ev("peer.send.err", "", 0, 0, err.Error())
			}
		case msg != nil && (!msg.Gate || msg.Open):
			next++
			msg.Sent = w.seq()
			w.r.Ev("peer.send", fmt.Sprint("msg", msg.Idx), 0, 0, msg.Raw)
			if err := w.pEnd.Send([]byte(msg.Raw)); err != nil {
				w.r.Ev("peer.send.err", "", 0, 0, err.Error())
			}
		default: // close gate, or the peer hangs up early (with whatever is in flight)
			if early && !w.closeGate {
				w.r.Probe("peer-closed-early")
			}
			if w.stopSeq < 0 {
				w.stopSeq = w.seq()
			}
			w.causes = append(w.causes, stopCause{Kind: "closed", Begin: w.seq(), End: -1})
			w.pEnd.Close()
			return
		}
	}
}

func (w *srvWorld) peerReceiver() {
	for {
		b, err := w.pEnd.Recv()
		if err != nil {
			w.peerEOF = true
			w.r.Ev("peer.eof", "", 0, 0, err.Error())
			return
		}
		w.peerIn = append(w.peerIn, string(b))
		w.peerSawRecord(string(b))
	}
}

// peerSawRecord lets the scripted peer react to pushed requests.
func (w *srvWorld) peerSawRecord(raw string) {
	o := &outRec{Raw: raw}
	parseOut(o)
	for _, ob := range o.Objs {
		if ob.Method == "" {
			continue
		}
		var p tagParams
		json.Unmarshal([]byte(ob.Params), &p)
		pr := &pushRec{Seq: w.seq(), ID: ob.ID, Method: ob.Method, Tag: p.T}
		for _, a := range w.acts {
			if a.Tag == p.T {
				pr.Act = a
			}
		}
		w.pushed = append(w.pushed, pr)
		if ob.ID == "" {
			continue
		}
		g := w.r.Sch
		pr.Plan = g.Weighted("replyplan", []int{5, 2, 2, 1, 1})
		if pr.Plan == 2 && w.cfg.AnswerAll {
			pr.Plan = 0 // this workload needs every callback answered (a handler may be waiting for it)
		}
		switch pr.Plan {
		case 0:
			w.queueReply(pr, false)
		case 3:
			w.queueReply(pr, false)
			if w.r.Sch.Chance("dupshape", 0.5) {
				// the duplicate arrives after the first reply has completed the
				// callback and must be discarded whatever it looks like: a void
				// result, a scalar, an error object without data
				w.nreply++
				body := []string{`"result":null`, `"result":0`, `"result":""`, `"result":[]`, `"result":{}`, `"error":{"code":1,"message":"dup"}`, `"error":{"code":-32603,"message":"dup","data":null}`}[w.r.Sch.Int("dupbody", 7)]
				raw := fmt.Sprintf(`{"jsonrpc":"2.0","id":%s,%s}`, pr.ID, body)
				pr.Replies = append(pr.Replies, peerReply{Seq: w.seq(), Arrive: -1, Payload: fmt.Sprintf("dupshape%d", w.nreply), Raw: raw, IsErr: strings.Contains(body, `"error"`)})
				w.outbox = append(w.outbox, raw)
			} else {
				w.queueReply(pr, false)
			}
		}
	}
}

// queueReply makes the peer answer a pushed call with a fresh unique payload.
func (w *srvWorld) queueReply(pr *pushRec, unknownFirst bool) {
	if unknownFirst {
		w.nreply++
		w.outbox = append(w.outbox, fmt.Sprintf(`{"jsonrpc":"2.0","id":%d,"result":{"r":"unsolicited%d"}}`, 7000+w.nreply, w.nreply))
	}
	w.nreply++
	pay := fmt.Sprintf("r%d", w.nreply)
	rep := peerReply{Seq: w.seq(), Arrive: -1, Payload: pay}
	if w.r.Sch.Chance("replyerr", 0.25) {
		rep.IsErr = true
		// a client may fail a callback with any code, the protocol's own included
		rep.Code = []int{8000 + w.nreply, 8000 + w.nreply, -32601, -32602, -32603, -32600, -32700, -32098, 1}[w.r.Sch.Int("replycode", 9)]
		rep.Raw = fmt.Sprintf(`{"jsonrpc":"2.0","id":%s,"error":{"code":%d,"message":"%s","data":{"d":"%s"}}}`, pr.ID, rep.Code, pay, pay)
	} else {
		rep.Raw = fmt.Sprintf(`{"jsonrpc":"2.0","id":%s,"result":{"r":"%s"}}`, pr.ID, pay)
	}
	pr.Replies = append(pr.Replies, rep)
	w.outbox = append(w.outbox, rep.Raw)
}

func (w *srvWorld) actionTask(a *action) {
	rt.Block("act:started", func() bool { return w.started })
	if a.Gate {
		rt.Block("act:gate", func() bool { return a.Open })
	} else {
		for i := 0; i < a.Delay; i++ {
			rt.Yield("act:delay")
		}
	}
	w.perform(context.Background(), a)
}

// perform executes one API action (from an outside task or from a handler).
func (w *srvWorld) perform(ctx context.Context, a *action) {
	switch a.Kind {
	case aCancel:
		a.Invoke = w.seq()
		w.r.Ev("cancel.invoke", a.ID, 0, 0, "")
		w.srv.CancelRequest(a.ID)
		a.Return = w.seq()
		w.r.Ev("cancel.return", a.ID, 0, 0, "")
	case aStop:
		a.Invoke = w.seq()
		if w.stopSeq < 0 {
			w.stopSeq = w.seq()
		}
		w.causes = append(w.causes, stopCause{Kind: "stopped", Begin: a.Invoke, End: -1})
		ci := len(w.causes) - 1
		w.r.Ev("stop.invoke", "", 0, 0, "")
		w.srv.Stop()
		if a.Twice {
			w.srv.Stop()
		}
		a.Return = w.seq()
		w.causes[ci].End = a.Return
		if w.stopDone < 0 {
			w.stopDone = a.Return
		}
		w.r.Ev("stop.return", "", 0, 0, "")
	case aNotify, aCallback:
		w.doPushAct(ctx, a)
	case aBaseCancel:
		a.Invoke = w.seq()
		if w.baseCancelSeq < 0 {
			w.baseCancelSeq = a.Invoke
		}
		w.r.Ev("basectx.cancel", "", 0, 0, "")
		w.baseCancel()
		a.Return = w.seq()
	}
	a.Done = true
}

// push issues a server push described by a, from an outside task or a handler.
func (w *srvWorld) doPushAct(base context.Context, a *action) {
	ctx := base
	switch a.CtxKind {
	case 1, 3:
		if a.Cause {
			c, cc := context.WithCancelCause(base)
			ctx, a.cancel = c, func() { cc(errors.New("custom cause: the operator gave up")) }
		} else {
			ctx, a.cancel = context.WithCancel(base)
		}
		if a.CtxKind == 3 {
			a.CancelSeq = w.seq()
			a.cancel()
			a.CancelEnd = w.seq()
		}
	case 2:
		var c context.CancelFunc
		ctx, c = context.WithTimeout(base, time.Minute)
		defer c()
		w.deadlines = append(w.deadlines, a)
	}
	a.Invoke = w.seq()
	params := map[string]string{"t": a.Tag}
	if a.Kind == aNotify {
		w.r.Ev("notify.invoke", a.Tag, 0, 0, "")
		err := w.srv.Notify(ctx, a.Method, params)
		a.Err, a.ErrV = errStr(err), err
	} else {
		w.r.Ev("callback.invoke", a.Tag, 0, 0, "")
		rsp, err := w.srv.Callback(ctx, a.Method, params)
		a.Err, a.ErrV = errStr(err), err
		if err == nil && rsp != nil {
			a.Result = rsp.ResultString()
		}
		if e, ok := err.(*jrpc2.Error); ok {
			a.Result = "E:" + e.Message
			a.ErrCode, a.ErrData = int(e.Code), string(e.Data)
		} else if err != nil && a.Kind == aCallback && !errors.Is(err, context.Canceled) && !errors.Is(err, context.DeadlineExceeded) && !errors.Is(err, jrpc2.ErrConnClosed) && !errors.Is(err, jrpc2.ErrPushUnsupported) {
			a.Result = "X:" + err.Error()
		}
	}
	if a.CtxKind == 2 && a.CancelSeq < 0 && ctx.Err() != nil {
		// the deadline passed on the fake clock without the workload's doing (the
		// clock also moves for timers of the library itself)
		a.ClockFired = true
		a.CancelSeq, a.CancelEnd = w.seq(), w.seq()
	}
	a.Return = w.seq()
	a.Done = true
	w.r.Ev("push.return", a.Tag, 0, 0, a.Err+" "+a.Result)
}

// onServerSend observes every record the server passes to Send.
func (w *srvWorld) onServerSend(e *End, rec []byte) {
	o := &outRec{Seq: w.seq(), Raw: string(rec)}
	parseOut(o)
	w.out = append(w.out, o)
}

func parseOut(o *outRec) {
	raw := strings.TrimSpace(o.Raw)
	var objs []json.RawMessage
	if strings.HasPrefix(raw, "[") {
		o.Array = true
		if err := json.Unmarshal([]byte(raw), &objs); err != nil {
			o.BadJSON = true
			return
		}
	} else {
		objs = []json.RawMessage{json.RawMessage(raw)}
	}
	for _, ob := range objs {
		var f map[string]json.RawMessage
		if err := json.Unmarshal(ob, &f); err != nil {
			o.BadJSON = true
			return
		}
		var ro respObj
		ro.ID = normID(string(f["id"]))
		json.Unmarshal(f["jsonrpc"], &ro.Version)
		if v, ok := f["method"]; ok {
			json.Unmarshal(v, &ro.Method)
			ro.Params = string(f["params"])
		}
		if v, ok := f["result"]; ok {
			ro.HasRes = true
			ro.Result = string(v)
		}
		if v, ok := f["error"]; ok {
			ro.HasErr = true
			var e struct {
				Code    int             `json:"code"`
				Message string          `json:"message"`
				Data    json.RawMessage `json:"data"`
			}
			if json.Unmarshal(v, &e) != nil {
				o.BadJSON = true
			}
			ro.Code, ro.Message, ro.Data = e.Code, e.Message, string(e.Data)
		}
		o.Objs = append(o.Objs, ro)
	}
}

// ---------------------------------------------------------------------------
// driver

func (w *srvWorld) setup() {
	r := w.r
	g := r.Gen
	w.K = 1 + g.Int("K", w.cfg.KMax)
	w.optK = w.K
	if w.cfg.BigK && g.Chance("bigk", 0.12) {
		// a large limit (always set explicitly: what an unset option defaults to
		// is documented nowhere in the properties)
		switch g.Int("bigkkind", 4) {
		case 0:
			w.K = 5 + g.Int("bigkval", 12)
		case 1:
			w.K = 24
		case 2:
			w.K = 16
		case 3:
			w.K = 33 + g.Int("hugek", 70) // beyond any "reasonable" cap
		}
		w.optK = w.K
		w.bigK = true
	}
	w.push = g.Chance("allowpush", 0.5) || w.cfg.ForcePush
	w.sEnd, w.pEnd = NewPipe(r, "srv", "peer")
	w.sEnd.CloseUnblocks = g.Chance("closeunblocks", 0.5)
	w.sEnd.OnSend = w.onServerSend
	w.stopSeq = -1
	w.restartSeq = -1
	w.stopDone = -1
	w.waitSeq = -1
	w.closeAfter = -1
}

func (w *srvWorld) start() {
	r := w.r
	opts := &jrpc2.ServerOptions{Concurrency: w.optK, AllowPush: w.push, RPCLog: w}
	if w.baseCtx != nil {
		opts.NewContext = func() context.Context { return w.baseCtx }
	}
	if r.Gen.Chance("srvlogger", 0.3) {
		// a debug logger: every log call is one more point at which the
		// scheduler may switch, also inside the server's critical sections
		opts.Logger = func(string) { rt.Yield("log") }
	}
	w.srv = jrpc2.NewServer(w, opts)
	r.Sim.Spawn("a-main", func() { w.srv.Start(w.sEnd); w.started = true })
	r.Sim.Spawn("p-send", w.peerSender)
	r.Sim.Spawn("p-recv", w.peerReceiver)
	for i, a := range w.acts {
		a := a
		if a.FromH == nil {
			r.Sim.Spawn(fmt.Sprintf("x-act%d", i), func() { w.actionTask(a) })
		}
	}
	// record arrival of each inbound message at the server: the server's Recv
	// return events are matched to messages by order.
}

// noteArrivals stamps messages with the sequence number at which the server's
// Recv returned them (the channel is ordered, so the n-th data return is the
// n-th message sent).
func (w *srvWorld) noteArrivals() {
	for ; w.arrScan < len(w.r.Sim.Events); w.arrScan++ {
		e := w.r.Sim.Events[w.arrScan]
		if e.Kind != "ch.recv.ret" || e.Tag != "srv" {
			continue
		}
		raw, suffix := e.S, ""
		if i := strings.LastIndex(raw, "|"); i >= 0 {
			raw, suffix = raw[:i], raw[i+1:]
		}
		if raw == "" {
			continue
		}
		for _, m := range w.msgs {
			if m.Sent >= 0 && m.Arrive < 0 && m.Raw == raw {
				m.Arrive = w.arrScan
				m.WithEOF = suffix == "EOF"
				break
			}
		}
	}
}

// gates lists what the workload can open at a quiescent point.
type gateRef struct {
	msg    *message
	mem    *member
	act    *action
	cancel *action  // cancel the context of a pending push
	reply  *pushRec // let the peer answer a pushed call now
	clock  bool     // advance the fake clock past the pending deadlines
}

func (w *srvWorld) closedGates() []gateRef {
	var gs []gateRef
	for _, m := range w.msgs {
		if m.Sent < 0 {
			if m.Gate && !m.Open {
				gs = append(gs, gateRef{msg: m})
			}
			break // messages are sent in order
		}
	}
	for _, m := range w.msgs {
		for _, mm := range m.Members {
			if mm.Holding && !mm.Released {
				gs = append(gs, gateRef{mem: mm})
			}
		}
	}
	for _, a := range w.acts {
		if a.Gate && !a.Open && a.FromH == nil {
			gs = append(gs, gateRef{act: a})
		}
		if a.CtxKind == 1 && a.cancel != nil && a.CancelSeq < 0 && !a.Done {
			gs = append(gs, gateRef{cancel: a})
		}
	}
	for _, pr := range w.pushed {
		if (pr.Plan == 1 || pr.Plan == 4) && !pr.Open {
			gs = append(gs, gateRef{reply: pr})
		}
	}
	for _, a := range w.deadlines {
		if a.CancelSeq < 0 && !a.Done {
			gs = append(gs, gateRef{clock: true})
			break
		}
	}
	return gs
}

func (w *srvWorld) open(g gateRef) {
	switch {
	case g.msg != nil:
		g.msg.Open = true
		w.r.Ev("gate.msg", fmt.Sprint("msg", g.msg.Idx), 0, 0, "")
	case g.mem != nil:
		g.mem.Released = true
		w.r.Ev("gate.release", g.mem.Tag, 0, 0, "")
	case g.act != nil:
		g.act.Open = true
		w.r.Ev("gate.act", "", 0, 0, "")
	case g.cancel != nil:
		a := g.cancel
		a.CancelSeq = w.seq()
		w.r.Ev("gate.ctxcancel", a.Tag, 0, 0, "")
		a.cancel() // context.CancelFunc: closes a channel, wakes waiters that park at once
		a.CancelEnd = w.seq()
	case g.reply != nil:
		g.reply.Open = true
		w.r.Ev("gate.reply", g.reply.Tag, 0, 0, "")
		w.queueReply(g.reply, g.reply.Plan == 4)
	case g.clock:
		w.r.Ev("gate.clock", "", 0, 0, "+61s")
		for _, a := range w.deadlines {
			if a.CancelSeq < 0 && !a.Done {
				a.CancelSeq = w.seq()
			}
		}
		w.r.Sim.Advance(61 * time.Second)
		for _, a := range w.deadlines {
			if a.CancelEnd == 0 && a.CancelSeq >= 0 {
				a.CancelEnd = w.seq()
			}
		}
		w.r.Probe("deadline-fired-on-fake-clock")
	}
}

// drive runs the workload to its final quiescent point; atQ is called at every
// quiescent point before the next gates are opened. It returns false when the
// run was abandoned.
func (w *srvWorld) drive(atQ func()) bool {
	r := w.r
	for {
		if !r.RunQ() {
			return false
		}
		w.qpoints = append(w.qpoints, w.seq())
		r.Ev("quiescent", "", len(w.qpoints), 0, "")
		if atQ != nil {
			atQ()
			if r.Failed() {
				return false
			}
		}
		gs := w.closedGates()
		if len(gs) == 0 {
			return true
		}
		// open 1..3 gates at once so that their effects race
		n := 1 + r.Gen.Weighted("ngates", []int{6, 3, 1})
		for i := 0; i < n && len(gs) > 0; i++ {
			k := r.Gen.Int("gate", len(gs))
			w.open(gs[k])
			gs = append(gs[:k], gs[k+1:]...)
		}
	}
}

// shutdown closes the peer end, waits for the server and runs to quiescence.
func (w *srvWorld) shutdown() bool {
	r := w.r
	// Stop ends the server by itself: when Stop() has returned and the channel
	// is one whose Close unblocks a pending Recv, WaitStatus returns once the
	// handlers have - it must not need the peer to hang up first.
	local := w.cfg.Prop == "C08" && w.stopDone >= 0 && w.sEnd.CloseUnblocks && !w.peerClosedEarly()
	if !local {
		w.closeGate = true
	}
	w.releaseAll = true
	r.Sim.Spawn("w-wait", func() {
		st := w.srv.WaitStatus()
		w.status = &st
		w.waitSeq = w.seq()
		r.Ev("waitstatus", "", 0, 0, fmt.Sprintf("%+v", st))
		if w.restartEnd != nil && w.running == 0 {
			// restart at once, while goroutines the server does not wait for
			// (callback watchers) may still be winding down
			w.restartSeq = w.seq()
			w.activeAtRestart = serversActiveNow()
			w.srv.Start(w.restartEnd)
			w.restarted = true
			r.Ev("restart", "", 0, 0, "immediately after WaitStatus")
		}
	})
	if !r.RunQ() {
		return false
	}
	if local {
		if w.status == nil {
			why := ""
			for _, g := range r.Sim.Unfinished() {
				why += fmt.Sprintf(" %s@%s(%s)", g.Name, g.Site, g.State())
			}
			r.Fail("waitstatus-never-returned", "Stop() has returned (#%d), every handler has been released and the channel's Close unblocks Recv, yet WaitStatus has not returned while the peer is still connected; goroutines left:%s", w.stopDone, why)
			return false
		}
		r.Probe("waitstatus-returned-before-peer-closed")
		w.closeGate = true
		return r.RunQ()
	}
	return true
}

// peerClosedEarly: the scripted peer has already hung up.
func (w *srvWorld) peerClosedEarly() bool {
	for _, c := range w.causes {
		if c.Kind == "closed" {
			return true
		}
	}
	return false
}

func (w *srvWorld) sample() any {
	var msgs []string
	for _, m := range w.msgs {
		g := ""
		if m.Gate {
			g = "(gated) "
		}
		msgs = append(msgs, g+m.Raw)
	}
	var scripts []string
	for _, m := range w.msgs {
		for _, mm := range m.Members {
			if mm.hasHandler() {
				scripts = append(scripts, fmt.Sprintf("%s:%+v", mm.Tag, mm.Script))
			}
		}
	}
	var acts []string
	for _, a := range w.acts {
		acts = append(acts, fmt.Sprintf("%+v", *a))
	}
	return map[string]any{"concurrency": w.K, "allow_push": w.push, "close_unblocks_recv": w.sEnd.CloseUnblocks, "messages": msgs, "handler_scripts": scripts, "actions": acts}
}

// ---------------------------------------------------------------------------
// oracles shared by several properties

// progress checks, at a quiescent point, that no dispatchable request is
// waiting without a reason the properties allow (C03 second sentence, C06 work
// conservation). It returns a description of the first request found stuck.
// progress is C03's reading: a message none of whose requests has started,
// although nothing the property allows holds it back, is being delayed (by a
// running call). Requests of a message that has partly started are C06's.
func (w *srvWorld) progress() string { return w.progressOf(false) }

// progressOf: with dispatchedOnly, only requests whose message has provably
// been dispatched are judged (some member of that or of a later message has
// started: dispatch is in arrival order). That is C06's reading ("a dispatched
// request is waiting"); whether a message may still be undispatched is C03's.
func (w *srvWorld) progressOf(dispatchedOnly bool) string {
	w.noteArrivals()
	if w.stopSeq >= 0 || w.baseCancelSeq >= 0 {
		return "" // (once the base context has ended every request is cancelled before it starts)
	}
	lastStarted := -1
	msgStarted := map[int]bool{}
	for _, msg := range w.msgs {
		for _, m := range msg.Members {
			if m.Enter >= 0 || (m.Kind == mRPCInfo && w.repliedWithResult(m.ID)) {
				lastStarted = msg.Idx
				msgStarted[msg.Idx] = true
			}
		}
	}
	unfinishedNoteBefore := false
	for _, msg := range w.msgs {
		// a message counts from the moment the peer's Send of it has completed (at
		// a quiescent point every started Send has): a server that leaves it
		// unread in its inbox is delaying it just the same
		if msg.Sent < 0 || msg.Garbage || msg.Empty {
			continue
		}
		for _, m := range msg.Members {
			if !m.executable() {
				continue
			}
			started := m.Enter >= 0 || (m.Kind == mRPCInfo && w.infoStarted(msg, m)) || w.cancelRequested(m)
			if dispatchedOnly && msg.Idx > lastStarted {
				continue
			}
			if !dispatchedOnly && msgStarted[msg.Idx] {
				continue
			}
			if !started && !unfinishedNoteBefore && w.running < w.K {
				return fmt.Sprintf("request %s (message %d) has not started although no earlier notification is unfinished and only %d of %d slots are in use", m.Tag, msg.Idx, w.running, w.K)
			}
		}
		for _, m := range msg.Members {
			if m.Kind == mNote && m.Exit < 0 {
				unfinishedNoteBefore = true
			}
		}
	}
	return ""
}

// cancelRequested reports whether a CancelRequest naming m's id has been
// invoked (such a request may legitimately never start).
func (w *srvWorld) cancelRequested(m *member) bool {
	if m.ID == "" {
		return false
	}
	if m.Script.CancelID == "waiting" {
		return true
	}
	// A CancelRequest that had returned before the request even arrived named an
	// unknown id at the time and does nothing: it excuses nothing.
	arrive := -1
	for _, msg := range w.msgs {
		for _, mm := range msg.Members {
			if mm == m {
				arrive = msg.Arrive
			}
		}
	}
	for _, a := range w.acts {
		if a.Kind == aCancel && a.ID == m.ID && a.Invoke >= 0 && (a.Return < 0 || arrive < 0 || a.Return >= arrive) {
			return true
		}
	}
	return false
}

func (w *srvWorld) memberByID(id string) []*member {
	var out []*member
	for _, msg := range w.msgs {
		for _, m := range msg.Members {
			if m.ID == id && id != "" {
				out = append(out, m)
			}
		}
	}
	return out
}

// expected describes the response a member must produce, given what its
// handler did. ok=false means no response object.
func (w *srvWorld) checkResp(m *member, o respObj) string {
	if o.Version != "2.0" {
		return fmt.Sprintf("response for %s lacks jsonrpc 2.0: %+v", m.Tag, o)
	}
	if o.HasRes == o.HasErr {
		return fmt.Sprintf("response for %s must have exactly one of result/error: %+v", m.Tag, o)
	}
	switch m.Kind {
	case mCall:
		if o.ID != m.ID {
			return fmt.Sprintf("response id %s, want %s (%s)", o.ID, m.ID, m.Tag)
		}
		if m.Enters == 0 {
			// never handed to its handler: only a call cancelled before it got a slot
			if o.HasErr && w.cancelRequested(m) {
				return ""
			}
			// ... or one that bears the id of an earlier call (whether that one was
			// still in flight is for C07 to judge)
			if m.DupOf != nil && o.HasErr && o.Code == -32600 {
				return ""
			}
			return fmt.Sprintf("%s: answered %+v although its handler never ran", m.Tag, o)
		}
		if m.HErr != "" {
			if !o.HasErr {
				return fmt.Sprintf("%s: handler returned error %q but response is a result %s", m.Tag, m.HErr, o.Result)
			}
			if m.Script.Outcome == 1 && (o.Code != m.Script.ErrCode || !strings.Contains(o.Message, m.Tag)) {
				return fmt.Sprintf("%s: error response %d %q does not carry the handler's error %q", m.Tag, o.Code, o.Message, m.HErr)
			}
			if m.Script.Outcome == 1 {
				want := ""
				if m.Script.ErrData {
					want = fmt.Sprintf(`{"d":%q,"n":[1,2]}`, m.Tag)
				}
				if compactJSON(o.Data) != want {
					return fmt.Sprintf("%s: error response carries data %q, the handler's error carried %q", m.Tag, o.Data, want)
				}
			}
			// (an error that is not an *Error: what of its text reaches the client is
			// not settled by the property; an error object with the call's id is)
			return ""
		}
		if !o.HasRes || compactJSON(o.Result) != m.Result {
			return fmt.Sprintf("%s: response %+v does not carry the handler's result %s", m.Tag, o, m.Result)
		}
	case mUnknownCall, mRPCOther:
		if o.ID == m.ID && o.HasErr && w.cancelRequested(m) {
			return "" // named by a CancelRequest while in flight: a cancellation error is as good (no handler runs either way)
		}
		if o.ID != m.ID || !o.HasErr || o.Code != -32601 {
			return fmt.Sprintf("%s: want -32601 with id %s, got %+v", m.Tag, m.ID, o)
		}
	case mRPCInfo:
		if o.ID == m.ID && o.HasErr && w.cancelRequested(m) {
			return "" // cancelled before it got a slot
		}
		if o.ID != m.ID || !o.HasRes || !strings.Contains(o.Result, `"h"`) {
			// (what the info looks like is C17's business; that it is a result which
			// names the assigner's one method tells it from a stray object)
			return fmt.Sprintf("%s: want server info with id %s, got %+v", m.Tag, m.ID, o)
		}
	case mInvalid:
		if o.ID != m.EchoID || !o.HasErr || (o.Code != -32600 && o.Code != -32700) {
			return fmt.Sprintf("%s (%s): want -32600/-32700 with id %s, got %+v", m.Tag, m.Defect, m.EchoID, o)
		}
	}
	return ""
}

func compactJSON(s string) string {
	var v any
	if json.Unmarshal([]byte(s), &v) != nil {
		return s
	}
	b, _ := json.Marshal(v)
	return string(b)
}

func sortedKeys[M ~map[string]V, V any](m M) []string {
	ks := make([]string, 0, len(m))
	for k := range m {
		ks = append(ks, k)
	}
	sort.Strings(ks)
	return ks
}

// statusObs is one more caller of WaitStatus (or Wait) besides the harness's
// main waiter: a program may well have several (server.Loop and the
// application, say).
type statusObs struct {
	Name   string
	UseErr bool // calls Wait() instead of WaitStatus()
	Done   bool
	St     jrpc2.ServerStatus
	Err    error
	Seq    int
}

func (w *srvWorld) observe(name string, useErr bool, delay int) {
	o := &statusObs{Name: name, UseErr: useErr}
	w.observers = append(w.observers, o)
	w.r.Sim.Spawn(name, func() {
		rt.Block("obs:started", func() bool { return w.started })
		for i := 0; i < delay; i++ {
			rt.Yield("obs:delay")
		}
		if useErr {
			o.Err = w.srv.Wait()
		} else {
			o.St = w.srv.WaitStatus()
			o.Err = o.St.Err
		}
		o.Seq = w.seq()
		o.Done = true
		w.r.Ev("observer", name, 0, 0, fmt.Sprintf("%+v %v", o.St, o.Err))
	})
}

// checkObservers: every caller of WaitStatus / Wait gets the same report.
func (w *srvWorld) checkObservers() {
	r := w.r
	if w.status == nil {
		return
	}
	for _, o := range w.observers {
		if o.Done {
			// whoever calls it, WaitStatus (Wait) returns only after every handler has returned
			for _, msg := range w.msgs {
				for _, m := range msg.Members {
					if m.Enter >= 0 && m.Enter < o.Seq && (m.Exit < 0 || m.Exit > o.Seq) {
						r.Fail("waitstatus-before-handler-exit", "%s: WaitStatus/Wait returned at #%d to this caller while handler %s (entered #%d) had not returned (exit #%d)", o.Name, o.Seq, m.Tag, m.Enter, m.Exit)
						return
					}
				}
			}
		}
		if !o.Done {
			r.Fail("waitstatus-never-returned", "%s: a second caller of WaitStatus/Wait has not returned although the server has ended (status %+v)", o.Name, *w.status)
			return
		}
		sameErr := func(a, b error) bool {
			// the same report: both nil, or both the channel's error (a status may
			// be a fresh value per call: joined or wrapped errors)
			if (a == nil) != (b == nil) {
				return false
			}
			return a == nil || a == b || errors.Is(a, ErrInjected) == errors.Is(b, ErrInjected)
		}
		if o.UseErr {
			// (C08 speaks of WaitStatus; what Wait returns besides returning at the
			// right time is not judged, except that a failed channel is an error)
			if w.status.Err != nil && o.Err == nil {
				r.Fail("wrong-status", "%s: Wait returned nil but WaitStatus reported %+v for the same stop", o.Name, *w.status)
				return
			}
			continue
		}
		if o.St.Stopped != w.status.Stopped || o.St.Closed != w.status.Closed || !sameErr(o.St.Err, w.status.Err) {
			r.Fail("wrong-status", "%s: WaitStatus reported %+v to one caller and %+v to another for the same stop", o.Name, *w.status, o.St)
			return
		}
	}
}

// normID: ids are compared as JSON values where that is cheap and certain: a
// string id is decoded and written again the way encoding/json writes it (the
// workloads generate their string ids in that form), so "\u00e9" and "é" are
// one id. Numbers keep their text (integers beyond 2^53 must survive exactly).
func normID(raw string) string {
	if strings.HasPrefix(raw, `"`) {
		var v string
		if json.Unmarshal([]byte(raw), &v) == nil {
			if b, err := json.Marshal(v); err == nil {
				return string(b)
			}
		}
	}
	return raw
}
