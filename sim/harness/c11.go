package verifh

import (
	"bytes"
	"fmt"
	"io"
	"strings"

	"github.com/creachadair/jrpc2/channel"
	rt "github.com/creachadair/jrpc2/verifrt"
)

func init() { scenarios["C11"] = scenarioC11 }

type framingSpec struct {
	Name  string
	F     channel.Framing
	Split int    // split byte, -1 if none
	JSON  bool   // records must be self-delimiting JSON values
	Mime  string // header framings
	Kind  string // "split", "hdr", "json", "direct"
	Strict, OptType bool
}

func pickFraming(r *Run, withDirect bool) framingSpec {
	g := r.Gen
	n := 8
	if !withDirect {
		n = 7
	}
	switch g.Int("framing", n) {
	case 0:
		return framingSpec{Name: "Line", F: channel.Line, Split: '\n', Kind: "split"}
	case 1:
		b := []byte{0x1e, 0, ',', 0xff, ' '}[g.Int("splitbyte", 5)]
		return framingSpec{Name: fmt.Sprintf("Split(0x%02x)", b), F: channel.Split(b), Split: int(b), Kind: "split"}
	case 2:
		m := []string{"application/json", "application/JSON-RPC", "application/json; charset=UTF-8", "application/vnd.Example+json; v=\"2\""}[g.Int("mime", 4)]
		return framingSpec{Name: "Header(" + m + ")", F: channel.Header(m), Split: -1, Mime: m, Kind: "hdr", OptType: true}
	case 3:
		m := []string{"text/x-test", "Text/X-Test", "application/x-very-long-media-type-name-0123456789-0123456789; param=Value"}[g.Int("mime", 3)]
		return framingSpec{Name: "StrictHeader(" + m + ")", F: channel.StrictHeader(m), Split: -1, Mime: m, Kind: "hdr", Strict: true}
	case 4:
		return framingSpec{Name: `Header("")`, F: channel.Header(""), Split: -1, Mime: "", Kind: "hdr", OptType: true}
	case 5:
		return framingSpec{Name: "LSP", F: channel.LSP, Split: -1, Mime: "application/vscode-jsonrpc; charset=utf-8", Kind: "hdr", OptType: true}
	case 6:
		return framingSpec{Name: "RawJSON", F: channel.RawJSON, Split: -1, JSON: true, Kind: "json"}
	}
	return framingSpec{Name: "Direct", Split: -1, Kind: "direct"}
}

// fill produces n pseudo-random bytes from a small LCG (content is a function
// of the drawn seed, so a replayed tape regenerates the same record).
func fill(n int, seed uint32, avoid int) []byte {
	b := make([]byte, n)
	x := seed*2654435761 + 12345
	for i := range b {
		x = x*1664525 + 1013904223
		c := byte(x >> 24)
		if avoid >= 0 && c == byte(avoid) {
			c++
			if avoid == 0xff {
				c = 'z'
			}
		}
		b[i] = c
	}
	return b
}

func genLen(r *Run, allowBig bool) int {
	g := r.Gen
	w := []int{2, 5, 4, 3, 3, 0, 1}
	if allowBig {
		w[5] = 1
	}
	switch g.Weighted("lenclass", w) {
	case 0:
		return 0
	case 1:
		return 1 + g.Int("len", 12)
	case 2:
		return 4090 + g.Int("len", 14)
	case 3:
		return 8185 + g.Int("len", 14)
	case 4:
		return g.Int("len", 700)
	case 6:
		return 65530 + g.Int("len", 12) // around 64 KiB
	}
	return 1<<20 + 1 + g.Int("len", 1<<21)
}

func genJSONRecord(r *Run, n int, seed uint32) []byte {
	g := r.Gen
	pad := strings.Repeat("x", n)
	ws := []string{"", " ", "\n", "\t ", "\r\n"}[g.Int("ws", 5)]
	switch g.Int("jsonshape", 6) {
	case 4:
		// any complete JSON value is a record: strings and constants delimit themselves
		return []byte(fmt.Sprintf(`"s%d %s \"q\" \\ {[,"`, seed%1000, pad))
	case 5:
		return []byte([]string{"true", "false"}[seed%2])
	case 0:
		return []byte(fmt.Sprintf(`{%s"jsonrpc":%s"2.0",%s"id":%d,"method":"m","params":{"p":"%s"}}`, ws, ws, ws, seed%1000, pad))
	case 1:
		return []byte(fmt.Sprintf(`[%s{"a":%s[1,%s2.5e3,%s"q\"uo}]{te"],"b":"%s"},%s{}]`, ws, ws, ws, ws, pad, ws))
	case 2:
		return []byte(fmt.Sprintf(`{"s":"br}ace]s \\ A","n":%s-0.5,%s"t":true,"z":null,"pad":"%s"}`, ws, ws, pad))
	}
	return []byte(fmt.Sprintf(`[%s"%s"%s]`, ws, pad, ws))
}

type nopWC struct{}

func (nopWC) Write(p []byte) (int, error) { return len(p), nil }
func (nopWC) Close() error                { return nil }

type emptyR struct{}

func (emptyR) Read(p []byte) (int, error) { return 0, io.EOF }

// configureStream draws the fragmentation policy.
func configureStream(r *Run, st *SimStream, total int) string {
	g := r.Gen
	w := []int{2, 4, 2, 3}
	if total > 8000 {
		w[0] = 0 // byte-by-byte delivery of a long stream would only hit the step cap
	}
	st.Mode = g.Weighted("chunkmode", w)
	desc := ""
	switch st.Mode {
	case 0:
		desc = "1-byte reads"
	case 1:
		st.MaxChunk = []int{3, 17, 4096, 0}[g.Int("maxchunk", 4)]
		if total > 100000 && st.MaxChunk != 0 && st.MaxChunk < 4096 {
			st.MaxChunk = 4096
		}
		desc = fmt.Sprintf("random cuts (max chunk %d)", st.MaxChunk)
	case 2:
		desc = "everything at once"
	case 3:
		st.CutAt = g.Int("cutat", total+1)
		desc = fmt.Sprintf("single cut at byte %d", st.CutAt)
	}
	st.EOFWithData = g.Chance("eofwithdata", 0.3)
	if st.EOFWithData {
		desc += ", last chunk with io.EOF"
	}
	return desc
}

// c11dir is one direction of a round-trip run: a sender task and a receiver task.
type c11dir struct {
	name             string
	chS, chR         channel.Channel
	st               *SimStream
	recs             [][]byte
	refuse           int
	got              [][]byte
	recvErr, again   error
	againData        []byte
	sendErr          string
	big              bool
	peer             *c11dir // duplex: the opposite direction (nil: simplex)
	closesFirst      bool    // duplex: this direction's sending endpoint closes first
	recvDone         bool
}

func genRecords(r *Run, fs framingSpec, max int) ([][]byte, int, bool) {
	g := r.Gen
	n := g.Int("nrecords", max+1)
	var recs [][]byte
	total := 0
	big := false
	for i := 0; i < n; i++ {
		l := genLen(r, !big && (fs.Kind == "hdr" || fs.Kind == "split" || fs.Kind == "json"))
		if big {
			// after a huge record: small ones, to exercise the buffer shrink policy
			l = g.Int("len", 3000)
		}
		if l > 1<<20 {
			big = true
		}
		seed := uint32(g.Int("content", 1<<16))
		var rec []byte
		if fs.JSON {
			// (an empty record is not a JSON value, hence not a record legal for
			// RawJSON: what the framing makes of it is not judged)
			rec = genJSONRecord(r, l, seed)
		} else {
			rec = fill(l, seed, fs.Split)
		}
		recs = append(recs, rec)
		total += len(rec) + 60
	}
	if fs.JSON && g.Chance("finalnumber", 0.25) {
		// a bare number is a JSON value too; with no delimiter after it, it is
		// complete only when the stream ends - so it can only be the last record
		recs = append(recs, []byte([]string{"42", "-0.5e3", "0", "1700000000123456789"}[g.Int("numberkind", 4)]))
		total += 80
	}
	return recs, total, big
}

func (d *c11dir) spawn(r *Run, fs framingSpec) {
	r.Sim.Spawn("a-send-"+d.name, func() {
		for i := 0; i <= len(d.recs); i++ {
			if i == d.refuse {
				// the split byte in the middle, at the end, at the start, or alone
				var bad []byte
				switch r.Gen.Int("splitpos", 4) {
				case 0:
					bad = append(fill(5, 7, fs.Split), byte(fs.Split), 'x')
				case 1:
					bad = append(fill(5, 7, fs.Split), byte(fs.Split))
				case 2:
					bad = append([]byte{byte(fs.Split)}, fill(5, 7, fs.Split)...)
				default:
					bad = []byte{byte(fs.Split)}
				}
				before := d.st.Written
				err := d.chS.Send(bad)
				if err == nil {
					r.Fail("split-byte-accepted", "%s: Send accepted a record containing the split byte", fs.Name)
					return
				}
				if d.st.Written != before {
					r.Fail("bytes-written-on-refused-send", "%s: Send refused a record containing the split byte but wrote %d bytes", fs.Name, d.st.Written-before)
					return
				}
			}
			if i == len(d.recs) {
				break
			}
			cp := append([]byte(nil), d.recs[i]...)
			if err := d.chS.Send(cp); err != nil {
				d.sendErr = fmt.Sprintf("Send of record %d failed: %v", i, err)
				return
			}
		}
		// One channel value serves both directions of its endpoint, and closing
		// it may end its receiving side too (a net.Conn does). So an endpoint
		// closes only when it has nothing more to receive: the endpoint that
		// closes first waits for all the records its peer sends (and is then not
		// asked for the end of that stream), the other waits for the end of the
		// stream it receives.
		if p := d.peer; p != nil {
			if d.closesFirst {
				rt.Block("close:wait-records", func() bool { return p.recvDone })
			} else {
				rt.Block("close:wait-eof", func() bool { return p.recvDone })
			}
		}
		r.Ev("c11.close", d.name, len(d.recs), 0, "")
		d.chS.Close()
	})
	r.Sim.Spawn("b-recv-"+d.name, func() {
		defer func() { d.recvDone = true; r.Ev("c11.recvdone", d.name, len(d.got), 0, errStr(d.recvErr)) }()
		for {
			if d.peer != nil && d.peer.closesFirst && len(d.got) == len(d.recs) {
				// the receiving endpoint of this direction closes first: it reads
				// the records and does not wait for the end of the stream
				return
			}
			b, err := d.chR.Recv()
			if err != nil {
				if len(b) != 0 {
					d.got = append(d.got, append([]byte(nil), b...))
				}
				d.recvErr = err
				d.againData, d.again = d.chR.Recv()
				return
			}
			d.got = append(d.got, append([]byte(nil), b...))
			if len(d.got) > len(d.recs)+2 {
				return
			}
			rt.Yield("recv:loop")
		}
	})
}

func (d *c11dir) judge(r *Run, fs framingSpec) {
	name := fs.Name + " (" + d.name + ")"
	if d.sendErr != "" {
		r.Fail("send-failed", "%s: %s", name, d.sendErr)
		return
	}
	// A bare number that ends the stream is complete only by virtue of that end: a
	// framing may deliver it, or report it as possibly cut off (an error other than
	// io.EOF) - what it may not do is drop it behind a clean end of stream.
	if n := len(d.recs); n > 0 && len(d.got) == n-1 && d.recvErr != nil && d.recvErr != io.EOF {
		if last := d.recs[n-1]; len(last) > 0 && (last[0] == '-' || (last[0] >= '0' && last[0] <= '9')) && fs.JSON {
			same := true
			for i := range d.got {
				if !bytes.Equal(d.got[i], d.recs[i]) {
					same = false
				}
			}
			if same {
				return
			}
		}
	}
	for i := range d.recs {
		if i >= len(d.got) {
			r.Fail("record-mismatch", "%s: %d records sent, only %d received (then %v)", name, len(d.recs), len(d.got), d.recvErr)
			return
		}
		if !bytes.Equal(d.got[i], d.recs[i]) {
			r.Fail("record-mismatch", "%s: record %d differs: sent %d bytes %s, received %d bytes %s", name, i, len(d.recs[i]), preview(d.recs[i]), len(d.got[i]), preview(d.got[i]))
			return
		}
	}
	if len(d.got) > len(d.recs) {
		r.Fail("record-mismatch", "%s: %d records sent, %d received; extra: %s", name, len(d.recs), len(d.got), preview(d.got[len(d.recs)]))
		return
	}
	if d.peer != nil && d.peer.closesFirst {
		return // its receiving endpoint closed first (see spawn): the records are all there is to judge
	}
	if d.recvErr != io.EOF {
		r.Fail("missing-eof", "%s: after the last record Recv returned %v, want io.EOF", name, d.recvErr)
		return
	}
	// once the stream is exhausted Recv keeps failing (with io.EOF or otherwise)
	if d.again == nil || len(d.againData) != 0 {
		r.Fail("missing-eof", "%s: a further Recv after io.EOF returned %s, %v; want no data and an error", name, preview(d.againData), d.again)
	}
}

func scenarioC11(r *Run) {
	strat := r.drawStrategy()
	g := r.Gen
	fs := pickFraming(r, true)
	// duplex: each channel value both sends and receives (as every Server and
	// Client uses it); simplex: one value only sends, another only receives
	duplex := fs.Kind == "direct" || g.Chance("duplex", 0.4)
	ab := &c11dir{name: "A->B", refuse: -1}
	var total int
	ab.recs, total, ab.big = genRecords(r, fs, 6)
	if fs.Kind == "split" && g.Chance("splitbyteinside", 0.3) {
		ab.refuse = g.Int("refuseat", len(ab.recs)+1)
	}
	dirs := []*c11dir{ab}
	policy := "in-memory"
	switch {
	case fs.Kind == "direct":
		c, s := channel.Direct()
		ba := &c11dir{name: "B->A", refuse: -1}
		ba.recs, _, _ = genRecords(r, fs, 3)
		ab.chS, ab.chR = c, s
		ba.chS, ba.chR = s, c
		ab.peer, ba.peer = ba, ab
		ab.closesFirst = g.Chance("acloses", 0.5)
		ba.closesFirst = !ab.closesFirst
		dirs = append(dirs, ba)
	case duplex:
		ba := &c11dir{name: "B->A", refuse: -1}
		var total2 int
		ba.recs, total2, ba.big = genRecords(r, fs, 4)
		ab.st, ba.st = NewSimStream(r), NewSimStream(r)
		policy = configureStream(r, ab.st, total) + " / " + configureStream(r, ba.st, total2)
		a := fs.F(ba.st, ab.st) // endpoint A reads what B wrote, writes towards B
		b := fs.F(ab.st, ba.st)
		ab.chS, ab.chR = a, b
		ba.chS, ba.chR = b, a
		ab.peer, ba.peer = ba, ab
		ab.closesFirst = g.Chance("acloses", 0.5)
		ba.closesFirst = !ab.closesFirst
		if fs.JSON {
			// RawJSON has no delimiter: a scalar (number, string, literal) at the very end of what has been
			// written is complete only when more data or the end of the stream
			// follows. The endpoint that closes first reads its records without
			// waiting for that end, so the last one it reads delimits itself.
			in := ba // read by endpoint A
			if ba.closesFirst {
				in = ab
			}
			if n := len(in.recs); n > 0 && !strings.ContainsAny(string(in.recs[n-1][:1]), `{[`) {
				in.recs = append(in.recs, []byte(`{"last":true}`))
			}
		}
		dirs = append(dirs, ba)
		r.Probe("duplex-use-of-one-channel-value")
	default:
		ab.st = NewSimStream(r)
		policy = configureStream(r, ab.st, total)
		ab.chS = fs.F(emptyR{}, ab.st)
		ab.chR = fs.F(ab.st, nopWC{})
	}
	var lens [][]int
	for _, d := range dirs {
		var l []int
		for _, rec := range d.recs {
			l = append(l, len(rec))
		}
		lens = append(lens, l)
	}
	r.Sample = map[string]any{"strategy": strat, "framing": fs.Name, "record_lengths_per_direction": lens, "fragmentation": policy, "refused_record_at": ab.refuse, "duplex": len(dirs) == 2}
	for _, d := range dirs {
		d.spawn(r, fs)
	}
	if !r.RunQ() || r.Failed() {
		return
	}
	h := rt.HashString(fmt.Sprint(fs.Name, lens, policy))
	for _, d := range dirs {
		if d.st != nil {
			h ^= rt.HashString(fmt.Sprint(d.st.Mode, d.st.CutAt, d.st.MaxChunk, d.st.EOFWithData, d.st.NRead, d.st.Cuts))
			if d.st.Cuts > 0 {
				r.Probe("stream-was-fragmented")
			}
		}
		if d.big {
			r.Probe("record-over-1MiB-then-small")
		}
	}
	r.extra = h | 1
	for _, d := range dirs {
		d.judge(r, fs)
		if r.Failed() {
			return
		}
	}
}

func preview(b []byte) string {
	if len(b) > 48 {
		return fmt.Sprintf("%q...%q", b[:24], b[len(b)-16:])
	}
	return fmt.Sprintf("%q", b)
}
