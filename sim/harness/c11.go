package verifh

import (
	"bytes"
	"fmt"
	"io"
	"strings"

	"github.com/creachadair/jrpc2/channel"
	rt "github.com/creachadair/jrpc2/verifrt"
)

func init() { scenarios["C11"] = scenarioC11 }

type framingSpec struct {
	Name  string
	F     channel.Framing
	Split int    // split byte, -1 if none
	JSON  bool   // records must be self-delimiting JSON values
	Mime  string // header framings
	Kind  string // "split", "hdr", "json", "direct"
	Strict, OptType bool
}

func pickFraming(r *Run, withDirect bool) framingSpec {
	g := r.Gen
	n := 8
	if !withDirect {
		n = 7
	}
	switch g.Int("framing", n) {
	case 0:
		return framingSpec{Name: "Line", F: channel.Line, Split: '\n', Kind: "split"}
	case 1:
		b := []byte{0x1e, 0, ',', 0xff, ' '}[g.Int("splitbyte", 5)]
		return framingSpec{Name: fmt.Sprintf("Split(0x%02x)", b), F: channel.Split(b), Split: int(b), Kind: "split"}
	case 2:
		return framingSpec{Name: "Header(application/json)", F: channel.Header("application/json"), Split: -1, Mime: "application/json", Kind: "hdr", OptType: true}
	case 3:
		return framingSpec{Name: "StrictHeader(text/x-test)", F: channel.StrictHeader("text/x-test"), Split: -1, Mime: "text/x-test", Kind: "hdr", Strict: true}
	case 4:
		return framingSpec{Name: `Header("")`, F: channel.Header(""), Split: -1, Mime: "", Kind: "hdr", OptType: true}
	case 5:
		return framingSpec{Name: "LSP", F: channel.LSP, Split: -1, Mime: "application/vscode-jsonrpc; charset=utf-8", Kind: "hdr", OptType: true}
	case 6:
		return framingSpec{Name: "RawJSON", F: channel.RawJSON, Split: -1, JSON: true, Kind: "json"}
	}
	return framingSpec{Name: "Direct", Split: -1, Kind: "direct"}
}

// fill produces n pseudo-random bytes from a small LCG (content is a function
// of the drawn seed, so a replayed tape regenerates the same record).
func fill(n int, seed uint32, avoid int) []byte {
	b := make([]byte, n)
	x := seed*2654435761 + 12345
	for i := range b {
		x = x*1664525 + 1013904223
		c := byte(x >> 24)
		if avoid >= 0 && c == byte(avoid) {
			c++
			if avoid == 0xff {
				c = 'z'
			}
		}
		b[i] = c
	}
	return b
}

func genLen(r *Run, allowBig bool) int {
	g := r.Gen
	w := []int{2, 5, 4, 3, 3, 0}
	if allowBig {
		w[5] = 1
	}
	switch g.Weighted("lenclass", w) {
	case 0:
		return 0
	case 1:
		return 1 + g.Int("len", 12)
	case 2:
		return 4090 + g.Int("len", 14)
	case 3:
		return 8185 + g.Int("len", 14)
	case 4:
		return g.Int("len", 700)
	}
	return 1<<20 + 1 + g.Int("len", 1<<21)
}

func genJSONRecord(r *Run, n int, seed uint32) []byte {
	g := r.Gen
	pad := strings.Repeat("x", n)
	ws := []string{"", " ", "\n", "\t ", "\r\n"}[g.Int("ws", 5)]
	switch g.Int("jsonshape", 4) {
	case 0:
		return []byte(fmt.Sprintf(`{%s"jsonrpc":%s"2.0",%s"id":%d,"method":"m","params":{"p":"%s"}}`, ws, ws, ws, seed%1000, pad))
	case 1:
		return []byte(fmt.Sprintf(`[%s{"a":%s[1,%s2.5e3,%s"q\"uo}]{te"],"b":"%s"},%s{}]`, ws, ws, ws, ws, pad, ws))
	case 2:
		return []byte(fmt.Sprintf(`{"s":"br}ace]s \\ A","n":%s-0.5,%s"t":true,"z":null,"pad":"%s"}`, ws, ws, pad))
	}
	return []byte(fmt.Sprintf(`[%s"%s"%s]`, ws, pad, ws))
}

type nopWC struct{}

func (nopWC) Write(p []byte) (int, error) { return len(p), nil }
func (nopWC) Close() error                { return nil }

type emptyR struct{}

func (emptyR) Read(p []byte) (int, error) { return 0, io.EOF }

// configureStream draws the fragmentation policy.
func configureStream(r *Run, st *SimStream, total int) string {
	g := r.Gen
	w := []int{2, 4, 2, 3}
	if total > 20000 {
		w[0] = 0
	}
	st.Mode = g.Weighted("chunkmode", w)
	desc := ""
	switch st.Mode {
	case 0:
		desc = "1-byte reads"
	case 1:
		st.MaxChunk = []int{3, 17, 4096, 0}[g.Int("maxchunk", 4)]
		if total > 100000 && st.MaxChunk != 0 && st.MaxChunk < 4096 {
			st.MaxChunk = 4096
		}
		desc = fmt.Sprintf("random cuts (max chunk %d)", st.MaxChunk)
	case 2:
		desc = "everything at once"
	case 3:
		st.CutAt = g.Int("cutat", total+1)
		desc = fmt.Sprintf("single cut at byte %d", st.CutAt)
	}
	st.EOFWithData = g.Chance("eofwithdata", 0.3)
	if st.EOFWithData {
		desc += ", last chunk with io.EOF"
	}
	return desc
}

func scenarioC11(r *Run) {
	strat := r.drawStrategy()
	g := r.Gen
	fs := pickFraming(r, true)
	n := g.Int("nrecords", 7)
	var recs [][]byte
	total := 0
	big := false
	for i := 0; i < n; i++ {
		l := genLen(r, !big && (fs.Kind == "hdr" || fs.Kind == "split" || fs.Kind == "json"))
		if big {
			// after a huge record: small ones, to exercise the buffer shrink policy
			l = g.Int("len", 3000)
		}
		if l > 1<<20 {
			big = true
		}
		seed := uint32(g.Int("content", 1<<16))
		var rec []byte
		if fs.JSON && g.Chance("emptyjson", 0.08) {
			rec = []byte{} // the RawJSON framing transmits an empty record as null
		} else if fs.JSON {
			rec = genJSONRecord(r, l, seed)
		} else {
			rec = fill(l, seed, fs.Split)
		}
		recs = append(recs, rec)
		total += len(rec) + 60
	}
	// a record the framing cannot represent
	refuse := -1
	if fs.Kind == "split" && g.Chance("splitbyteinside", 0.3) {
		refuse = g.Int("refuseat", len(recs)+1)
	}
	var chS, chR channel.Channel
	var st *SimStream
	policy := "in-memory"
	if fs.Kind == "direct" {
		chS, chR = channel.Direct()
	} else {
		st = NewSimStream(r)
		policy = configureStream(r, st, total)
		chS = fs.F(emptyR{}, st)
		chR = fs.F(st, nopWC{})
	}
	var lens []int
	for _, rec := range recs {
		lens = append(lens, len(rec))
	}
	r.Sample = map[string]any{"strategy": strat, "framing": fs.Name, "record_lengths": lens, "fragmentation": policy, "refused_record_at": refuse}

	var got [][]byte
	var recvErr, again error
	sendErr := ""
	r.Sim.Spawn("a-send", func() {
		for i := 0; i <= len(recs); i++ {
			if i == refuse {
				bad := append(fill(5, 7, fs.Split), byte(fs.Split), 'x')
				before := st.Written
				err := chS.Send(bad)
				if err == nil {
					r.Fail("split-byte-accepted", "%s: Send accepted a record containing the split byte", fs.Name)
					return
				}
				if st.Written != before {
					r.Fail("bytes-written-on-refused-send", "%s: Send refused a record containing the split byte but wrote %d bytes", fs.Name, st.Written-before)
					return
				}
			}
			if i == len(recs) {
				break
			}
			cp := append([]byte(nil), recs[i]...)
			if err := chS.Send(cp); err != nil {
				sendErr = fmt.Sprintf("Send of record %d failed: %v", i, err)
				return
			}
		}
		chS.Close()
	})
	r.Sim.Spawn("b-recv", func() {
		for {
			b, err := chR.Recv()
			if err != nil {
				if len(b) != 0 {
					got = append(got, append([]byte(nil), b...))
				}
				recvErr = err
				_, again = chR.Recv()
				return
			}
			got = append(got, append([]byte(nil), b...))
			if len(got) > len(recs)+2 {
				return
			}
			rt.Yield("recv:loop")
		}
	})
	if !r.RunQ() {
		return
	}
	if r.Failed() {
		return
	}
	if sendErr != "" {
		r.Fail("send-failed", "%s: %s", fs.Name, sendErr)
		return
	}
	if st != nil {
		h := rt.HashString(fmt.Sprint(fs.Name, lens, st.Mode, st.CutAt, st.MaxChunk, st.EOFWithData, st.NRead, st.Cuts))
		r.extra = h | 1
		if st.Cuts > 0 {
			r.Probe("stream-was-fragmented")
		}
		if big {
			r.Probe("record-over-1MiB-then-small")
		}
	}
	for i := range recs {
		if i >= len(got) {
			r.Fail("record-mismatch", "%s: %d records sent, only %d received (then %v)", fs.Name, len(recs), len(got), recvErr)
			return
		}
		if !bytes.Equal(got[i], recs[i]) {
			r.Fail("record-mismatch", "%s: record %d differs: sent %d bytes %s, received %d bytes %s", fs.Name, i, len(recs[i]), preview(recs[i]), len(got[i]), preview(got[i]))
			return
		}
	}
	if len(got) > len(recs) {
		r.Fail("record-mismatch", "%s: %d records sent, %d received; extra: %s", fs.Name, len(recs), len(got), preview(got[len(recs)]))
		return
	}
	if recvErr != io.EOF {
		r.Fail("missing-eof", "%s: after the last record Recv returned %v, want io.EOF", fs.Name, recvErr)
		return
	}
	if again != io.EOF {
		r.Fail("missing-eof", "%s: a further Recv after io.EOF returned %v, want io.EOF again", fs.Name, again)
	}
}

func preview(b []byte) string {
	if len(b) > 48 {
		return fmt.Sprintf("%q...%q", b[:24], b[len(b)-16:])
	}
	return fmt.Sprintf("%q", b)
}
