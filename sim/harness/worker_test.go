package verifh

import (
	"encoding/binary"
	"encoding/json"
	"fmt"
	"os"
	"regexp"
	"sort"
	"strconv"
	"strings"
	"testing"
	"time"

	rt "github.com/creachadair/jrpc2/verifrt"
)

// ReplayFile is the on-disk form of a (minimised) failing run.
type ReplayFile struct {
	Property string      `json:"property"`
	Class    string      `json:"class"`
	Message  string      `json:"message"`
	Seed     uint64      `json:"seed"`
	Tier     string      `json:"tier"`
	Gen      []rt.Choice `json:"gen_tape"`
	Sched    []rt.Choice `json:"sched_tape"`
	Sample   any         `json:"workload"`
	Trace    []string    `json:"schedule"`
	Events   []string    `json:"events"`
	Shrink   string      `json:"minimisation"`
	Force    *ForcedFault `json:"forced_fault,omitempty"`
}

type workerOut struct {
	Prop         string         `json:"property"`
	Worker       int            `json:"worker"`
	Runs         int            `json:"runs"`
	Steps        int64          `json:"steps"`
	Nontrivial   int            `json:"nontrivial_runs"`
	Inconclusive map[string]int `json:"inconclusive"`
	Faults       map[string]int `json:"faults_fired"`
	Probes       map[string]int `json:"probes"`
	Strategies   map[string]int `json:"strategies"`
	SimTimeNS    int64          `json:"sim_time_ns"`
	WallMS       int64          `json:"wall_ms"`
	MaxEnabled   int            `json:"max_enabled"`
	SwitchPairs  []string       `json:"switch_pairs"`
	Samples      []any          `json:"samples"`
	HashFile     string         `json:"hash_file"`
	HashCapped   bool           `json:"hash_capped"`
	Violation    *Violation     `json:"violation,omitempty"`
	ViolSeed     string         `json:"violation_seed,omitempty"`
	HarnessError string         `json:"harness_error,omitempty"`
	ErrSeed      string         `json:"harness_error_seed,omitempty"`
	Goroutines   int64          `json:"goroutines"`
	KnownHits    map[string]int `json:"known_hits"`
	EnumBases    int            `json:"enumerated_base_workloads"`
	EnumRuns     int            `json:"enumerated_fault_runs"`
	ViolReplay   string         `json:"violation_replay,omitempty"`
}

type knownFinding struct {
	Class string `json:"class"`
	Match string `json:"match"`
}

func (k knownFinding) matches(v *Violation) bool {
	if v.Class != k.Class {
		return false
	}
	if k.Match == "" {
		return true
	}
	ok, _ := regexp.MatchString(k.Match, v.Msg)
	return ok
}

func envInt(name string, def int) int {
	if v := os.Getenv(name); v != "" {
		n, err := strconv.Atoi(v)
		if err == nil {
			return n
		}
	}
	return def
}

func runSeed(base uint64, prop string, i int) uint64 {
	return rt.SplitMix64(base*0x9e3779b97f4a7c15 ^ rt.HashString(prop) ^ uint64(i)*0xd1342543de82ef95)
}

func randomSources(seed uint64) (*rt.Source, *rt.Source) {
	return rt.NewRandom(seed, 1), rt.NewRandom(seed, 2)
}

func TestWorker(t *testing.T) {
	mode := os.Getenv("VERIF_MODE")
	if mode == "" {
		t.Skip("VERIF_MODE not set")
	}
	prop := os.Getenv("VERIF_PROP")
	tier := os.Getenv("VERIF_TIER")
	if tier == "" {
		tier = "quick"
	}
	if v := envInt("VERIF_MAXSTEPS", 0); v > 0 {
		MaxSteps = v
	}
	rt.Paranoid = os.Getenv("VERIF_PARANOID") == "1"
	switch mode {
	case "search":
		workerSearch(t, prop, tier)
	case "minimize":
		workerMinimize(t, prop, tier)
	case "replay":
		workerReplay(t)
	case "merge":
		workerMerge(t)
	case "trace":
		workerTrace(t, prop, tier)
	case "runseed":
		// execute one seed (crash reproduction): the process dying is the observation
		seed, _ := strconv.ParseUint(os.Getenv("VERIF_RUNSEED"), 10, 64)
		gen, sched := randomSources(seed)
		res := RunOne(t, prop, tier, seed, gen, sched, true)
		out := map[string]any{"property": prop, "harness_error": res.HarnessError, "inconclusive": res.Inconclusive, "events": res.Events}
		if res.Violation != nil {
			out["class"], out["message"] = res.Violation.Class, res.Violation.Msg
		}
		writeJSON(os.Getenv("VERIF_OUT"), out)
	default:
		fmt.Fprintln(os.Stderr, "unknown VERIF_MODE", mode)
		os.Exit(2)
	}
}

func writeJSON(path string, v any) {
	b, err := json.MarshalIndent(v, "", " ")
	if err != nil {
		fmt.Fprintln(os.Stderr, "marshal:", err)
		os.Exit(2)
	}
	if err := os.WriteFile(path, b, 0o644); err != nil {
		fmt.Fprintln(os.Stderr, err)
		os.Exit(2)
	}
}

func workerSearch(t *testing.T, prop, tier string) {
	base := uint64(envInt("VERIF_SEED", 1))
	widx := envInt("VERIF_WORKER", 0)
	nw := envInt("VERIF_WORKERS", 1)
	budget := time.Duration(envInt("VERIF_BUDGET_MS", 5000)) * time.Millisecond
	maxRuns := envInt("VERIF_MAXRUNS", 1<<30)
	outPath := os.Getenv("VERIF_OUT")
	start := time.Now()
	out := &workerOut{Prop: prop, Worker: widx, Inconclusive: map[string]int{}, Faults: map[string]int{}, Probes: map[string]int{}, Strategies: map[string]int{}}
	out.KnownHits = map[string]int{}
	var known []knownFinding
	json.Unmarshal([]byte(os.Getenv("VERIF_KNOWN")), &known)
	hashes := map[uint64]struct{}{}
	pairs := map[string]struct{}{}
	const hashCap = 600000
	var curf *os.File
	if outPath != "" {
		curf, _ = os.Create(outPath + ".cur")
	}
	skip := envInt("VERIF_SKIP", 0)
	for i := widx + skip*nw; out.Runs < maxRuns; i += nw {
		if out.Runs%16 == 0 && time.Since(start) > budget {
			break
		}
		seed := runSeed(base, prop, i)
		if curf != nil {
			// so that the supervisor knows which run was executing if the process dies
			curf.WriteAt([]byte(fmt.Sprintf("%020d", seed)), 0)
		}
		gen, sched := randomSources(seed)
		res := RunOne(t, prop, tier, seed, gen, sched, false)
		out.Runs++
		out.Steps += int64(res.Steps)
		out.Goroutines += int64(res.Goroutines)
		out.SimTimeNS += int64(res.SimTime)
		if res.MaxEnabled > out.MaxEnabled {
			out.MaxEnabled = res.MaxEnabled
		}
		if res.HarnessError != "" {
			out.HarnessError = res.HarnessError
			out.ErrSeed = strconv.FormatUint(seed, 10)
			break
		}
		if res.Inconclusive != "" {
			key := res.Inconclusive
			if i := strings.IndexByte(key, ':'); i > 0 {
				key = key[:i]
			}
			out.Inconclusive[key]++
		}
		for k, v := range res.Faults {
			out.Faults[k] += v
		}
		for k, v := range res.Probes {
			out.Probes[k] += v
		}
		if s, ok := res.Sample.(map[string]any); ok {
			if st, ok := s["strategy"].(string); ok {
				out.Strategies[st]++
			}
		}
		if res.Nontrivial {
			out.Nontrivial++
			if len(hashes) < hashCap {
				hashes[res.CaseHash] = struct{}{}
			} else {
				out.HashCapped = true
			}
		}
		for _, p := range res.SwitchPairs {
			if len(pairs) < 20000 {
				pairs[p] = struct{}{}
			}
		}
		if len(out.Samples) < 2 && res.Sample != nil && (out.Runs == 3 || out.Runs == 40) {
			out.Samples = append(out.Samples, map[string]any{"seed": strconv.FormatUint(seed, 10), "workload": res.Sample, "first_scheduling_decisions": res.Trace, "steps": res.Steps})
		}
		if res.Violation != nil {
			isKnown := false
			for _, k := range known {
				if k.matches(res.Violation) {
					out.KnownHits[k.Class]++
					isKnown = true
					break
				}
			}
			if isKnown {
				continue
			}
			out.Violation = res.Violation
			out.ViolSeed = strconv.FormatUint(seed, 10)
			break
		}
		// Systematic sweep (thorough tier, properties quantified over "a failure at
		// every channel operation of a scenario"): re-run this workload once per
		// operation index and fault kind of the library's channel end.
		if tier == "thorough" && (prop == "C08" || prop == "C05") && out.Runs%6 == 0 && res.Inconclusive == "" {
			if v, path := enumerateFaults(t, prop, tier, seed, res, outPath, known, out); v != nil {
				out.Violation = v
				out.ViolSeed = strconv.FormatUint(seed, 10)
				out.ViolReplay = path
				break
			}
		}
	}
	out.WallMS = time.Since(start).Milliseconds()
	for p := range pairs {
		out.SwitchPairs = append(out.SwitchPairs, p)
	}
	sort.Strings(out.SwitchPairs)
	if outPath != "" {
		hf := outPath + ".hashes"
		buf := make([]byte, 0, 8*len(hashes))
		for h := range hashes {
			buf = binary.LittleEndian.AppendUint64(buf, h)
		}
		os.WriteFile(hf, buf, 0o644)
		out.HashFile = hf
		writeJSON(outPath, out)
	}
}

// enumerateFaults runs the workload of base once per (channel operation, fault
// kind), with the same workload tape and a fresh schedule each time.
func enumerateFaults(t *testing.T, prop, tier string, seed uint64, base *Result, outPath string, known []knownFinding, out *workerOut) (*Violation, string) {
	out.EnumBases++
	type ff struct {
		recv bool
		n    int
		kind []int
	}
	plan := []ff{{true, base.LibRecvOps + 1, []int{fRecvErr, fRecvDataEOF, fRecvDataErr}}, {false, base.LibSendOps + 1, []int{fSendErrLost, fSendErrAfter}}}
	k := 0
	for _, p := range plan {
		for at := 0; at < p.n && at < 40; at++ {
			for _, kind := range p.kind {
				k++
				Forced = &ForcedFault{Recv: p.recv, At: at, Kind: kind}
				s2 := rt.SplitMix64(seed + uint64(k)*0x9e3779b97f4a7c15)
				res := RunOne(t, prop, tier, s2, rt.NewReplay(base.Gen), rt.NewRandom(s2, 2), false)
				f := Forced
				Forced = nil
				out.EnumRuns++
				out.Steps += int64(res.Steps)
				for kk, vv := range res.Faults {
					out.Faults[kk] += vv
				}
				if res.Violation == nil {
					continue
				}
				isKnown := false
				for _, kf := range known {
					if kf.matches(res.Violation) {
						out.KnownHits[kf.Class]++
						isKnown = true
					}
				}
				if isKnown {
					continue
				}
				// keep the exact run: workload tape, schedule tape and the forced fault
				path := outPath + ".enum-replay.json"
				writeJSON(path, &ReplayFile{Property: prop, Class: res.Violation.Class, Message: res.Violation.Msg, Seed: s2, Tier: tier,
					Gen: res.Gen, Sched: res.Sched, Sample: res.Sample, Trace: res.Trace, Events: res.Events, Force: f,
					Shrink: "not minimised (systematic fault sweep)"})
				return res.Violation, path
			}
		}
	}
	return nil, ""
}

// workerMerge counts distinct case hashes over the hash files of all workers.
func workerMerge(t *testing.T) {
	files := strings.Split(os.Getenv("VERIF_HASHFILES"), ":")
	var all []uint64
	for _, f := range files {
		if f == "" {
			continue
		}
		b, err := os.ReadFile(f)
		if err != nil {
			continue
		}
		for i := 0; i+8 <= len(b); i += 8 {
			all = append(all, binary.LittleEndian.Uint64(b[i:]))
		}
	}
	sort.Slice(all, func(i, j int) bool { return all[i] < all[j] })
	n := 0
	for i, h := range all {
		if i == 0 || h != all[i-1] {
			n++
		}
	}
	writeJSON(os.Getenv("VERIF_OUT"), map[string]int{"distinct": n})
}

func sameClass(res *Result, class string) bool {
	return res.Violation != nil && res.Violation.Class == class
}

func replayRun(t *testing.T, prop, tier string, seed uint64, gen, sched []rt.Choice, keep bool) *Result {
	return RunOne(t, prop, tier, seed, rt.NewReplay(gen), rt.NewReplay(sched), keep)
}

// shrinkTape minimises one tape while test keeps succeeding.
func shrinkTape(tape []rt.Choice, test func([]rt.Choice) bool, budget *int) []rt.Choice {
	try := func(c []rt.Choice) bool {
		if *budget <= 0 {
			return false
		}
		*budget--
		return test(c)
	}
	// drop trailing zeros: they are implied
	trim := func(c []rt.Choice) []rt.Choice {
		for len(c) > 0 && c[len(c)-1].V == 0 {
			c = c[:len(c)-1]
		}
		return c
	}
	tape = trim(tape)
	// A: cut the tail
	for n := len(tape) / 2; n >= 1; n /= 2 {
		for len(tape) > n {
			c := trim(append([]rt.Choice(nil), tape[:len(tape)-n]...))
			if try(c) {
				tape = c
			} else {
				break
			}
		}
	}
	// B: delete chunks
	for size := len(tape) / 2; size >= 1; size /= 2 {
		for i := 0; i+size <= len(tape); {
			c := append(append([]rt.Choice(nil), tape[:i]...), tape[i+size:]...)
			if try(trim(c)) {
				tape = trim(c)
			} else {
				i += size
			}
		}
	}
	// C: zero single values, else halve / decrement them
	for i := 0; i < len(tape); i++ {
		if tape[i].V == 0 {
			continue
		}
		for _, v := range []int{0, tape[i].V / 2, tape[i].V - 1} {
			if i >= len(tape) || v >= tape[i].V {
				continue
			}
			c := append([]rt.Choice(nil), tape...)
			c[i].V = v
			if try(trim(c)) {
				tape = trim(c)
				break
			}
		}
	}
	return tape
}

func workerMinimize(t *testing.T, prop, tier string) {
	// Every violation is run again here before it is reported - with the
	// single-runner invariant checked by real goroutine ids. A goroutine that was
	// woken inside a blocking construct the simulator does not control (io.Pipe,
	// a mutex of another package) runs without the token; what an oracle makes of
	// such a run is worthless, and the check ends with exit 2 instead of a verdict.
	rt.Paranoid = true
	seed, _ := strconv.ParseUint(os.Getenv("VERIF_RUNSEED"), 10, 64)
	outPath := os.Getenv("VERIF_OUT")
	var res *Result
	var force *ForcedFault
	if from := os.Getenv("VERIF_FROM"); from != "" {
		// start from a recorded run (systematic fault sweep) instead of a seed
		b, err := os.ReadFile(from)
		var rf ReplayFile
		if err == nil {
			err = json.Unmarshal(b, &rf)
		}
		if err != nil {
			fmt.Fprintln(os.Stderr, "minimize:", err)
			os.Exit(2)
		}
		seed, force = rf.Seed, rf.Force
		Forced = force
		res = replayRun(t, prop, tier, seed, rf.Gen, rf.Sched, true)
	} else {
		gen0, sched0 := randomSources(seed)
		res = RunOne(t, prop, tier, seed, gen0, sched0, true)
	}
	if res.Violation == nil {
		if strings.Contains(res.Inconclusive, "single-runner") {
			fmt.Fprintf(os.Stderr, "minimize: the simulator lost control of the schedule in seed %d (a goroutine ran without the token: the tree blocks in a construct that is not instrumented): %s\n", seed, res.Inconclusive)
			os.Exit(2)
		}
		fmt.Fprintf(os.Stderr, "minimize: seed %d does not reproduce (harness error %q, inconclusive %q)\n", seed, res.HarnessError, res.Inconclusive)
		os.Exit(2)
	}
	class := res.Violation.Class
	gen, sched := res.Gen, res.Sched
	// the recorded tapes must reproduce the violation before shrinking starts
	chk := replayRun(t, prop, tier, seed, gen, sched, false)
	if !sameClass(chk, class) {
		fmt.Fprintf(os.Stderr, "minimize: tape replay of seed %d does not reproduce class %s (got %+v)\n", seed, class, chk.Violation)
		os.Exit(2)
	}
	budget := envInt("VERIF_SHRINK_RUNS", 2500)
	deadline := time.Now().Add(time.Duration(envInt("VERIF_SHRINK_MS", 45000)) * time.Millisecond)
	g0, s0 := len(gen), len(sched)
	for round := 0; round < 4 && budget > 0 && time.Now().Before(deadline); round++ {
		lg, ls := len(gen), len(sched)
		sched = shrinkTape(sched, func(c []rt.Choice) bool {
			return time.Now().Before(deadline) && sameClass(replayRun(t, prop, tier, seed, gen, c, false), class)
		}, &budget)
		gen = shrinkTape(gen, func(c []rt.Choice) bool {
			return time.Now().Before(deadline) && sameClass(replayRun(t, prop, tier, seed, c, sched, false), class)
		}, &budget)
		if len(gen) == lg && len(sched) == ls {
			break
		}
	}
	final := replayRun(t, prop, tier, seed, gen, sched, true)
	if !sameClass(final, class) {
		fmt.Fprintln(os.Stderr, "minimize: minimised tapes do not reproduce")
		os.Exit(2)
	}
	rf := &ReplayFile{Property: prop, Class: class, Message: final.Violation.Msg, Seed: seed, Tier: tier,
		Gen: final.Gen, Sched: final.Sched, Sample: final.Sample, Trace: final.Trace, Events: final.Events,
		Force:  force,
		Shrink: fmt.Sprintf("gen tape %d -> %d choices, schedule/fault tape %d -> %d choices", g0, len(final.Gen), s0, len(final.Sched))}
	writeJSON(outPath, rf)
}

func workerReplay(t *testing.T) {
	path := os.Getenv("VERIF_REPLAY")
	b, err := os.ReadFile(path)
	if err != nil {
		fmt.Fprintln(os.Stderr, err)
		os.Exit(2)
	}
	var rf ReplayFile
	if err := json.Unmarshal(b, &rf); err != nil {
		fmt.Fprintln(os.Stderr, err)
		os.Exit(2)
	}
	Forced = rf.Force
	res := replayRun(t, rf.Property, rf.Tier, rf.Seed, rf.Gen, rf.Sched, true)
	out := map[string]any{"property": rf.Property, "expected_class": rf.Class, "diverged": res.Diverged, "events": res.Events, "harness_error": res.HarnessError, "inconclusive": res.Inconclusive}
	if res.Violation != nil {
		out["class"] = res.Violation.Class
		out["message"] = res.Violation.Msg
	}
	writeJSON(os.Getenv("VERIF_OUT"), out)
}

// workerTrace runs seeds and writes the complete event log of each: used by
// the determinism self-test (logs must be byte-identical across processes).
func workerTrace(t *testing.T, prop, tier string) {
	base := uint64(envInt("VERIF_SEED", 1))
	n := envInt("VERIF_MAXRUNS", 32)
	f, err := os.Create(os.Getenv("VERIF_OUT"))
	if err != nil {
		fmt.Fprintln(os.Stderr, err)
		os.Exit(2)
	}
	defer f.Close()
	for i := 0; i < n; i++ {
		seed := runSeed(base, prop, i)
		gen, sched := randomSources(seed)
		res := RunOne(t, prop, tier, seed, gen, sched, true)
		fmt.Fprintf(f, "== seed %d steps %d hash %x viol %v incon %q err %q\n", seed, res.Steps, res.SchedHash, res.Violation != nil, res.Inconclusive, res.HarnessError)
		for _, tr := range res.Trace {
			fmt.Fprintln(f, "S", tr)
		}
		for _, e := range res.Events {
			fmt.Fprintln(f, "E", e)
		}
	}
}
