package verifh

import (
	"errors"
	"fmt"
	"io"
	"net"

	rt "github.com/creachadair/jrpc2/verifrt"
)

// Fault kinds of a simulated channel end.
const (
	fNone         = iota
	fRecvErr      // Recv -> (nil, injected error)
	fRecvDataEOF  // Recv -> (data, io.EOF)
	fRecvDataErr  // Recv -> (data, injected error)
	fSendErrLost  // Send -> injected error, record not delivered
	fSendErrAfter // Send -> injected error, record delivered
	fRecvErrAgain // a later Recv on a channel that has broken for good (reported to OnFault only)
)

var faultNames = map[int]string{fRecvErr: "recv-err", fRecvDataEOF: "recv-data+eof", fRecvDataErr: "recv-data+err", fSendErrLost: "send-err-lost", fSendErrAfter: "send-err-delivered"}

// ErrInjected is the error value injected channel faults return.
var ErrInjected = errors.New("injected channel failure")

// ErrInjectedClose is what a Close that does close the channel, but reports a
// failure, returns (a value of its own: a client or server may attach it to
// whatever it reports, and it must not be mistaken for a failed Recv or Send).
var ErrInjectedClose = errors.New("injected failure while closing")

// An End is one end of a simulated, reliable, ordered record channel. It
// implements channel.Channel. All methods must be called by the token holder.
type End struct {
	r    *Run
	Name string
	peer *End
	in   [][]byte

	closed     bool // Close was called on this end
	peerClosed bool // the peer called Close: Recv reports io.EOF once drained
	// CloseUnblocks selects the close semantics: true = socket/pipe-like (a
	// pending or later Recv on a closed end fails with an error wrapping
	// net.ErrClosed), false = stdin/channel.Direct-like (Close does not affect
	// Recv on the same end).
	CloseUnblocks bool

	// discipline monitor (C10)
	sendBusy, recvBusy, closeBusy int
	NSend, NRecv, NClose          int
	NSendFault                    int
	NSendClosed                   int   // Send calls made after this end had been closed
	StickyRecvErr                 bool  // once a Recv has failed (fRecvErr) every later Recv fails too
	errStuck                      bool
	NRecvStuck                    int
	SendAfterClose                bool // Close does not disable the write side (a detached user of a shared transport)
	FaultedSends                  []int // indexes (1-based, as NSend) of the Send calls that reported an injected error
	Overlaps                      []string

	// fault script
	sendOps, recvOps int         // number of Send / Recv calls made so far on this end
	FaultSendAt      map[int]int // index of the Send call -> fault kind
	FaultRecvAt      map[int]int // index of the Recv call -> fault kind
	FaultRate        float64     // per-operation probability of a random fault (drawn from Sched)
	OnFault          func(kind int)
	Failed    bool // a fault has fired on this end
	eofStuck  bool // the inbound stream has reported its end: every further Recv is io.EOF

	OnSend func(e *End, rec []byte) // observation hook, called at Send entry

	CloseErr bool // Close does close the channel but reports an error
	kick     int  // fault kind to fire on the Recv that is pending (or next)
}

// NewPipe returns two connected ends.
func NewPipe(r *Run, a, b string) (*End, *End) {
	x := &End{r: r, Name: a, FaultSendAt: map[int]int{}, FaultRecvAt: map[int]int{}}
	y := &End{r: r, Name: b, FaultSendAt: map[int]int{}, FaultRecvAt: map[int]int{}}
	x.peer, y.peer = y, x
	return x, y
}

func (e *End) overlap(what string) {
	e.Overlaps = append(e.Overlaps, what)
	e.r.Ev("ch.overlap", e.Name, 0, 0, what)
}

func (e *End) faultFor(isSend bool) int {
	var k int
	var at map[int]int
	if isSend {
		k, at = e.sendOps, e.FaultSendAt
		e.sendOps++
	} else {
		k, at = e.recvOps, e.FaultRecvAt
		e.recvOps++
	}
	if e.Failed {
		return fNone
	}
	f, ok := at[k]
	if !ok && e.FaultRate > 0 && e.r.Sch.Chance("fault", e.FaultRate) {
		if isSend {
			f = []int{fSendErrLost, fSendErrAfter}[e.r.Sch.Int("sendfault", 2)]
		} else {
			f = []int{fRecvErr, fRecvDataEOF, fRecvDataErr}[e.r.Sch.Int("recvfault", 3)]
		}
		ok = true
	}
	if !ok {
		return fNone
	}
	return f
}

func (e *End) fired(f int) {
	e.Failed = true
	e.r.Fault(faultNames[f])
	e.r.Ev("ch.fault", e.Name, 0, 0, faultNames[f])
	if e.OnFault != nil {
		e.OnFault(f)
	}
}

// Send implements channel.Channel.
func (e *End) Send(b []byte) error {
	if e.sendBusy > 0 {
		e.overlap("concurrent-send")
	}
	if e.closeBusy > 0 {
		e.overlap("send-overlaps-close")
	}
	e.sendBusy++
	e.NSend++
	rec := append([]byte(nil), b...)
	e.r.Ev("ch.send", e.Name, e.NSend, 0, string(rec))
	if e.OnSend != nil {
		e.OnSend(e, rec)
	}
	rt.Yield("sim:send:enter")
	f := e.faultFor(true)
	var err error
	switch {
	case e.closed && !e.SendAfterClose:
		e.NSendClosed++ // handed to an end that is already closed: nothing is transmitted
		err = fmt.Errorf("send on closed channel end %s", e.Name)
	case f == fSendErrLost:
		e.NSendFault++
		e.FaultedSends = append(e.FaultedSends, e.NSend)
		e.fired(f)
		err = ErrInjected
	default:
		if !e.peer.closed || !e.peer.CloseUnblocks {
			// a stdin/Direct-like end keeps receiving after its own Close
			e.peer.in = append(e.peer.in, rec)
		}
		if f == fSendErrAfter {
			e.NSendFault++
			e.FaultedSends = append(e.FaultedSends, e.NSend)
			e.fired(f)
			err = ErrInjected
		}
	}
	rt.Yield("sim:send:exit")
	e.sendBusy--
	e.r.Ev("ch.send.end", e.Name, e.NSend, 0, errStr(err))
	return err
}

func errStr(err error) string {
	if err == nil {
		return ""
	}
	return err.Error()
}

// Recv implements channel.Channel.
func (e *End) Recv() ([]byte, error) {
	if e.recvBusy > 0 {
		e.overlap("concurrent-recv")
	}
	e.recvBusy++
	e.NRecv++
	n := e.NRecv
	e.r.Ev("ch.recv", e.Name, n, 0, "")
	f := e.faultFor(false)
	var data []byte
	var err error
	if e.eofStuck {
		rt.Yield("sim:recv:eof")
		err = io.EOF
	} else if e.errStuck && !(e.closed && e.CloseUnblocks) {
		// a channel that has broken for good: every Recv fails from now on
		rt.Yield("sim:recv:stuck")
		e.NRecvStuck++
		if e.OnFault != nil {
			e.OnFault(fRecvErrAgain)
		}
		err = ErrInjected
	} else if f == fRecvErr {
		rt.Yield("sim:recv:fault")
		e.fired(f)
		e.errStuck = e.StickyRecvErr
		err = ErrInjected
	} else {
		rt.Block("sim:recv", func() bool {
			return len(e.in) > 0 || e.peerClosed || (e.closed && e.CloseUnblocks) || e.kick != 0
		})
		switch {
		case e.kick != 0:
			e.fired(e.kick)
			e.kick = 0
			err = ErrInjected
		case e.closed && e.CloseUnblocks:
			err = fmt.Errorf("read %s: %w", e.Name, net.ErrClosed)
		case len(e.in) > 0:
			data = e.in[0]
			e.in = e.in[1:]
			if f == fRecvDataEOF {
				e.eofStuck = true
				e.fired(f)
				err = io.EOF
			} else if f == fRecvDataErr {
				e.fired(f)
				err = ErrInjected
			}
		default:
			err = io.EOF
		}
	}
	e.recvBusy--
	e.r.Ev("ch.recv.ret", e.Name, n, 0, string(data)+"|"+errStr(err))
	return data, err
}

// Close implements channel.Channel.
func (e *End) Close() error {
	if e.sendBusy > 0 {
		e.overlap("send-overlaps-close")
	}
	if e.closeBusy > 0 {
		e.overlap("concurrent-close")
	}
	e.closeBusy++
	e.NClose++
	e.r.Ev("ch.close", e.Name, e.NClose, 0, "")
	rt.Yield("sim:close")
	e.closed = true
	e.peer.peerClosed = true
	e.closeBusy--
	if e.CloseErr {
		e.r.Fault("close-returns-error")
		return ErrInjectedClose
	}
	return nil
}

// Kick makes the pending (or next) Recv on this end fail with ErrInjected.
func (e *End) Kick() { e.kick = fRecvErr }

// Pending reports the number of records waiting to be received on this end.
func (e *End) Pending() int { return len(e.in) }
