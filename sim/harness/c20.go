package verifh

import (
	"context"
	"errors"
	"fmt"
	"net"
	"sort"
	"strings"
	"time"

	"github.com/creachadair/jrpc2"
	"github.com/creachadair/jrpc2/channel"
	"github.com/creachadair/jrpc2/server"
	rt "github.com/creachadair/jrpc2/verifrt"
)

func init() { scenarios["C20"] = scenarioC20 }

// ---------------------------------------------------------------------------
// seams

type loopConn struct {
	Idx      int
	sEnd     *End // server side (record-level population)
	pEnd     *End
	in, out  *SimStream // byte-level population: client->server, server->client
	fc       *fakeConn
	Calls    int
	Closes   bool // the client closes by itself after its calls
	Hold     bool
	// state
	Connected, Accepted bool
	ClientDone          bool
	ClientClosed        int // seq (-1)
	Replies             []string
	svc                 *loopSvc
}

type simAccepter struct {
	w       *loopWorld
	queue   []*loopConn
	failErr error
	ctxErrClosed bool // on context end report a closed-listener error (like NetAccepter) rather than ctx.Err()
}

func (a *simAccepter) Accept(ctx context.Context) (channel.Channel, error) {
	var c *loopConn
	var err error
	rt.Block("accept", func() bool { return len(a.queue) > 0 || a.failErr != nil || ctx.Err() != nil })
	switch {
	case a.failErr != nil:
		err = a.failErr
	case ctx.Err() != nil && (len(a.queue) == 0 || a.w.r.Sch.Chance("ctxfirst", 0.5)):
		if a.ctxErrClosed {
			err = fmt.Errorf("accept: %w", net.ErrClosed)
		} else {
			err = ctx.Err()
		}
	default:
		c = a.queue[0]
		a.queue = a.queue[1:]
	}
	if err != nil {
		a.w.acceptErr, a.w.acceptErrSeq = err, a.w.seq()
		a.w.r.Ev("accept.err", "", 0, 0, err.Error())
		return nil, err
	}
	c.Accepted = true
	a.w.accepted++
	a.w.r.Ev("accept", fmt.Sprint("conn", c.Idx), 0, 0, "")
	return c.sEnd, nil
}

// observedAccepter records what the Accepter given to Loop returns.
type observedAccepter struct {
	w     *loopWorld
	inner server.Accepter
}

func (o *observedAccepter) Accept(ctx context.Context) (channel.Channel, error) {
	ch, err := o.inner.Accept(ctx)
	if err != nil {
		o.w.acceptErr, o.w.acceptErrSeq = err, o.w.seq()
		o.w.r.Ev("accept.err", "netaccepter", 0, 0, err.Error())
		return nil, err
	}
	o.w.accepted++
	o.w.r.Ev("accept", "netaccepter", o.w.accepted, 0, "")
	return ch, nil
}

type fakeAddr struct{}

func (fakeAddr) Network() string { return "sim" }
func (fakeAddr) String() string  { return "sim:0" }

type fakeListener struct {
	w       *loopWorld
	queue   []*loopConn
	closed  bool
	failErr error
	NClose  int
}

func (l *fakeListener) Accept() (net.Conn, error) {
	rt.Block("listener:accept", func() bool { return len(l.queue) > 0 || l.closed || l.failErr != nil })
	if l.failErr != nil {
		l.w.lstFailed = true
		l.w.acceptErr, l.w.acceptErrSeq = l.failErr, l.w.seq()
		return nil, l.failErr
	}
	if l.closed {
		err := &net.OpError{Op: "accept", Net: "sim", Err: net.ErrClosed}
		l.w.acceptErr, l.w.acceptErrSeq = err, l.w.seq()
		l.w.r.Ev("accept.err", "", 0, 0, err.Error())
		return nil, err
	}
	c := l.queue[0]
	l.queue = l.queue[1:]
	c.Accepted = true
	l.w.r.Ev("listener.accept", fmt.Sprint("conn", c.Idx), 0, 0, "")
	return c.fc, nil
}
func (l *fakeListener) Close() error   { rt.Yield("listener:close"); l.closed = true; l.NClose++; return nil }
func (l *fakeListener) Addr() net.Addr { return fakeAddr{} }

// fakeConn is the server side of an in-memory connection.
type fakeConn struct {
	c         *loopConn
	NClose    int
	closed    bool
	nread     int
	readErrAt int  // the k-th Read fails with ErrInjected (-1: never)
	Failed    bool // the injected read error has fired
}

func (f *fakeConn) Read(p []byte) (int, error) {
	if f.closed {
		return 0, fmt.Errorf("read: %w", net.ErrClosed)
	}
	// a socket-like connection: closing it makes a pending Read fail
	n, err := f.readOrClosed(p)
	return n, err
}

func (f *fakeConn) readOrClosed(p []byte) (int, error) {
	k := f.nread
	f.nread++
	if k == f.readErrAt {
		rt.Yield("conn:readfault")
		f.Failed = true
		f.c.w().r.Fault("conn-read-error")
		f.c.w().r.Ev("conn.fault", fmt.Sprint("conn", f.c.Idx), 0, 0, "")
		return 0, ErrInjected
	}
	s := f.c.in
	rt.Block("conn:read", func() bool { return len(s.buf) > 0 || s.closed || f.closed })
	if f.closed && len(s.buf) == 0 {
		return 0, fmt.Errorf("read: %w", net.ErrClosed)
	}
	return s.Read(p)
}
func (f *fakeConn) Write(p []byte) (int, error) {
	if f.closed {
		return 0, fmt.Errorf("write: %w", net.ErrClosed)
	}
	return f.c.out.Write(p)
}
func (f *fakeConn) Close() error {
	rt.Yield("conn:close")
	f.NClose++
	f.closed = true
	f.c.out.closed = true
	f.c.w().r.Ev("conn.close", fmt.Sprint("conn", f.c.Idx), f.NClose, 0, "")
	return nil
}
func (f *fakeConn) LocalAddr() net.Addr                { return fakeAddr{} }
func (f *fakeConn) RemoteAddr() net.Addr               { return fakeAddr{} }
func (f *fakeConn) SetDeadline(t time.Time) error      { return nil }
func (f *fakeConn) SetReadDeadline(t time.Time) error  { return nil }
func (f *fakeConn) SetWriteDeadline(t time.Time) error { return nil }

var theLoopWorld *loopWorld

func (c *loopConn) w() *loopWorld { return theLoopWorld }

// ---------------------------------------------------------------------------
// services

type loopSvc struct {
	w          *loopWorld
	Idx        int
	FailAssign bool
	asg        *svcAssigner
	NAssigner  int
	Finishes   []finishRec
	conn       *loopConn
	lastExit   int
}

type finishRec struct {
	Seq    int
	SameAs bool
	Status jrpc2.ServerStatus
}

type svcAssigner struct {
	svc *loopSvc
}

func (a *svcAssigner) Assign(ctx context.Context, method string) jrpc2.Handler {
	if method != "h" {
		return nil
	}
	return func(ctx context.Context, req *jrpc2.Request) (any, error) {
		var p tagParams
		req.UnmarshalParams(&p)
		w := a.svc.w
		// link the service to the connection the request came in on
		for _, c := range w.conns {
			if strings.HasPrefix(p.T, fmt.Sprintf("c%d.", c.Idx)) {
				a.svc.conn = c
				c.svc = a.svc
			}
		}
		v, err := w.th.handle(ctx, req)
		a.svc.lastExit = w.seq()
		return v, err
	}
}

func (s *loopSvc) Assigner() (jrpc2.Assigner, error) {
	s.NAssigner++
	s.w.r.Ev("svc.assigner", fmt.Sprint("svc", s.Idx), 0, 0, fmt.Sprint(s.FailAssign))
	if s.FailAssign {
		return nil, errors.New("assigner failed")
	}
	s.asg = &svcAssigner{svc: s}
	return s.asg, nil
}

func (s *loopSvc) Finish(a jrpc2.Assigner, st jrpc2.ServerStatus) {
	same := false
	if sa, ok := a.(*svcAssigner); ok && sa == s.asg {
		same = true
	}
	s.Finishes = append(s.Finishes, finishRec{Seq: s.w.seq(), SameAs: same, Status: st})
	s.w.r.Ev("svc.finish", fmt.Sprint("svc", s.Idx), 0, 0, fmt.Sprintf("%+v", st))
}

// ---------------------------------------------------------------------------

type loopWorld struct {
	r         *Run
	th        *tagHandlers
	conns     []*loopConn
	svcs      []*loopSvc
	failSvc   map[int]bool
	accepted  int
	acceptErr error
	acceptErrSeq int
	lstFailed    bool // the fake listener under NetAccepter reported its injected failure
	netPop    bool
	acc       *simAccepter
	lst       *fakeListener
	cancel    context.CancelFunc
	cancelSeq int
	loopErr   error
	loopDone  bool
	loopSeq   int
}

func (w *loopWorld) seq() int { return len(w.r.Sim.Events) }

func (w *loopWorld) newService() server.Service {
	s := &loopSvc{w: w, Idx: len(w.svcs)}
	s.FailAssign = w.failSvc[s.Idx]
	w.svcs = append(w.svcs, s)
	w.r.Ev("svc.new", fmt.Sprint("svc", s.Idx), 0, 0, "")
	return s
}

// clientTask is the scripted client of one connection.
func (w *loopWorld) clientTask(c *loopConn) {
	rt.Block("client:connect", func() bool { return c.Connected || c.ClientDone })
	if !c.Connected {
		return // never offered to the accepter
	}
	send := func(raw string) error {
		if w.netPop {
			_, err := c.in.Write([]byte(raw + "\n"))
			return err
		}
		return c.pEnd.Send([]byte(raw))
	}
	recv := func() (string, error) {
		if !w.netPop {
			b, err := c.pEnd.Recv()
			return string(b), err
		}
		var line []byte
		buf := make([]byte, 1)
		for {
			n, err := c.out.Read(buf)
			if n > 0 {
				if buf[0] == '\n' {
					return string(line), nil
				}
				line = append(line, buf[0])
			}
			if err != nil {
				return string(line), err
			}
		}
	}
	closeIt := func() {
		c.ClientClosed = w.seq()
		w.r.Ev("client.close", fmt.Sprint("conn", c.Idx), 0, 0, "")
		if w.netPop {
			c.in.Close()
		} else {
			c.pEnd.Close()
		}
	}
	for i := 0; i < c.Calls; i++ {
		tag := fmt.Sprintf("c%d.%d", c.Idx, i)
		if err := send(fmt.Sprintf(`{"jsonrpc":"2.0","id":%d,"method":"h","params":{"t":%q}}`, i+1, tag)); err != nil {
			break
		}
		var rep string
		var err error
		for {
			rep, err = recv()
			// a record that does not bear the id of this call (a notice with id
			// null, say) is not its reply
			if err != nil || strings.Contains(rep, fmt.Sprintf(`"id":%d,`, i+1)) || strings.Contains(rep, fmt.Sprintf(`"id":%d}`, i+1)) {
				break
			}
			w.r.Ev("client.ignored", fmt.Sprint("conn", c.Idx), 0, 0, rep)
		}
		if err != nil {
			// the server went away: close our end, as a real client would
			closeIt()
			c.ClientDone = true
			return
		}
		c.Replies = append(c.Replies, rep)
	}
	if c.Closes {
		closeIt()
		c.ClientDone = true
		return
	}
	// stay connected until the server goes away
	_, err := recv()
	if err != nil {
		closeIt()
	}
	c.ClientDone = true
}

func scenarioC20(r *Run) {
	strat := r.drawStrategy()
	g := r.Gen
	w := &loopWorld{r: r, th: newTagHandlers(r), failSvc: map[int]bool{}, cancelSeq: -1, acceptErrSeq: -1}
	theLoopWorld = w
	w.netPop = g.Chance("netaccepter", 0.4)
	nconn := g.Int("nconn", 5)
	for i := 0; i < nconn; i++ {
		c := &loopConn{Idx: i, Calls: g.Int("ncalls", 3), Closes: g.Chance("clientcloses", 0.6), ClientClosed: -1}
		if w.netPop {
			c.in, c.out = NewSimStream(r), NewSimStream(r)
			c.in.Mode, c.out.Mode = 2, 2
			c.fc = &fakeConn{c: c, readErrAt: -1}
			if g.Chance("connfault", 0.2) {
				c.fc.readErrAt = g.Int("connfaultat", 4)
			}
		} else {
			c.sEnd, c.pEnd = NewPipe(r, fmt.Sprint("srv", i), fmt.Sprint("peer", i))
			c.sEnd.CloseUnblocks = g.Chance("closeunblocks", 0.6)
			if g.Chance("connfault", 0.2) {
				// the connection fails under the server: its status carries the error
				c.sEnd.FaultRecvAt[g.Int("connfaultat", 4)] = []int{fRecvErr, fRecvDataErr}[g.Int("connfaultkind", 2)]
			}
		}
		for k := 0; k < c.Calls; k++ {
			w.th.add(fmt.Sprintf("c%d.%d", i, k), g.Int("hsteps", 3), g.Chance("hold", 0.3))
		}
		w.conns = append(w.conns, c)
	}
	for i := 0; i < nconn; i++ {
		if g.Chance("assignerfails", 0.15) {
			w.failSvc[i] = true
		}
	}
	if len(w.failSvc) > 0 && !w.netPop {
		// Whatever Loop itself may send on a connection whose service cannot start
		// (a notice to the peer) can fail: the connection is closed all the same.
		// Only connections without calls get the fault (a server sends nothing on
		// those), so that it cannot be mistaken for a failed reply.
		for _, c := range w.conns {
			if c.Calls == 0 && c.sEnd != nil && g.Chance("noticesendfails", 0.5) {
				c.sEnd.FaultSendAt[0] = fSendErrLost
			}
		}
	}
	// how it ends: context cancel, accepter failure (generic), or both
	endKind := g.Weighted("endkind", []int{5, 3, 2})
	ctxErrClosed := g.Chance("ctxerrclosed", 0.6)
	var sample []string
	for _, c := range w.conns {
		sample = append(sample, fmt.Sprintf("conn %d: %d calls, client closes=%v", c.Idx, c.Calls, c.Closes))
	}
	r.Sample = map[string]any{"strategy": strat, "accepter": map[bool]string{true: "server.NetAccepter over an in-memory listener (Line framing)", false: "in-memory Accepter"}[w.netPop],
		"connections": sample, "failing_assigners": fmt.Sprint(w.failSvc), "end": []string{"context cancel", "accepter failure", "accepter failure then context cancel"}[endKind]}

	ctx, cancel := context.WithCancel(context.Background())
	w.cancel = cancel
	var acc server.Accepter
	if w.netPop {
		w.lst = &fakeListener{w: w}
		// what Loop is handed is the NetAccepter: connections and failures are
		// counted at that interface (a connection that NetAccepter itself closes
		// after the context has ended never reaches Loop)
		acc = &observedAccepter{w: w, inner: server.NetAccepter(w.lst, channel.Line)}
	} else {
		w.acc = &simAccepter{w: w, ctxErrClosed: ctxErrClosed}
		acc = w.acc
	}
	r.Sim.Spawn("a-loop", func() {
		w.loopErr = server.Loop(ctx, acc, w.newService, &server.LoopOptions{ServerOptions: &jrpc2.ServerOptions{Concurrency: 1 + g.Int("K", 3)}})
		w.loopDone = true
		w.loopSeq = w.seq()
		r.Ev("loop.return", "", 0, 0, errStr(w.loopErr))
	})
	for _, c := range w.conns {
		c := c
		r.Sim.Spawn(fmt.Sprintf("c-client%d", c.Idx), func() { w.clientTask(c) })
	}
	// events in drawn order at quiescent points: connect, release a handler, end
	ended := false
	var failErr error
	for {
		if !r.RunQ() {
			return
		}
		type ev struct {
			kind string
			c    *loopConn
			h    *hrec
		}
		var evs []ev
		for _, c := range w.conns {
			if !c.Connected && !ended {
				evs = append(evs, ev{kind: "connect", c: c})
			}
		}
		for _, h := range w.th.holding() {
			evs = append(evs, ev{kind: "release", h: h})
		}
		if !ended {
			evs = append(evs, ev{kind: "end"})
		}
		if len(evs) == 0 {
			break
		}
		n := 1 + g.Weighted("nevents", []int{6, 3, 1})
		for i := 0; i < n && len(evs) > 0; i++ {
			k := g.Int("event", len(evs))
			e := evs[k]
			evs = append(evs[:k], evs[k+1:]...)
			switch e.kind {
			case "connect":
				e.c.Connected = true
				if w.netPop {
					w.lst.queue = append(w.lst.queue, e.c)
				} else {
					w.acc.queue = append(w.acc.queue, e.c)
				}
				r.Ev("connect", fmt.Sprint("conn", e.c.Idx), 0, 0, "")
			case "release":
				e.h.Released = true
			case "end":
				ended = true
				if endKind >= 1 {
					failErr = errors.New("accepter broke")
					if w.netPop {
						w.lst.failErr = failErr
					} else {
						w.acc.failErr = failErr
					}
					r.Ev("accepter.fail", "", 0, 0, "")
					r.Fault("accepter-error")
				}
				if endKind == 0 {
					w.cancelSeq = w.seq()
					r.Ev("ctx.cancel", "", 0, 0, "")
					cancel()
				}
				// connections never offered are dropped
				for _, c := range w.conns {
					if !c.Connected {
						c.ClientDone = true
					}
				}
			}
		}
	}
	// with an accepter failure the servers keep running until their clients close
	// or the context ends; end the context now if they are still up
	if !w.loopDone && w.cancelSeq < 0 {
		w.cancelSeq = w.seq()
		r.Ev("ctx.cancel", "", 0, 0, "late")
		cancel()
		for {
			if !r.RunQ() {
				return
			}
			hs := w.th.holding()
			if len(hs) == 0 {
				break
			}
			hs[0].Released = true
		}
	}
	w.check(failErr, ctxErrClosed)
}

func (w *loopWorld) check(failErr error, ctxErrClosed bool) {
	r := w.r
	if !w.loopDone {
		var names []string
		for _, g := range r.Sim.Unfinished() {
			names = append(names, g.Name+"@"+g.Site+"("+g.State()+")")
		}
		r.Fail("loop-never-returned", "the context has ended, every client has closed and every handler was released, yet Loop has not returned; goroutines: %v", names)
		return
	}
	// one service per accepted connection: services whose Assigner was asked are
	// the ones given a connection (a service made in advance for a connection
	// that never came has no server, and must not be finished either)
	nused := 0
	for _, s := range w.svcs {
		if s.NAssigner > 0 {
			nused++
		} else if len(s.Finishes) != 0 {
			r.Fail("finish-count", "service %d was never asked for its Assigner (it got no connection), yet Finish was called", s.Idx)
			return
		}
	}
	if nused != w.accepted {
		r.Fail("finish-count", "%d connections were accepted but %d services (of %d made by newService) were given one", w.accepted, nused, len(w.svcs))
		return
	}
	nerr, nclosedStatus := 0, 0
	// in the order of their Finish calls
	svcs := append([]*loopSvc(nil), w.svcs...)
	sort.SliceStable(svcs, func(i, j int) bool {
		fi, fj := 1<<30, 1<<30
		if len(svcs[i].Finishes) > 0 {
			fi = svcs[i].Finishes[0].Seq
		}
		if len(svcs[j].Finishes) > 0 {
			fj = svcs[j].Finishes[0].Seq
		}
		return fi < fj
	})
	for _, s := range svcs {
		if s.NAssigner == 0 {
			continue
		}
		if s.NAssigner != 1 {
			r.Fail("finish-count", "service %d: Assigner called %d times", s.Idx, s.NAssigner)
			return
		}
		if s.FailAssign {
			if len(s.Finishes) != 0 {
				r.Fail("finish-count", "service %d: its Assigner failed, yet Finish was called", s.Idx)
				return
			}
			continue
		}
		if len(s.Finishes) != 1 {
			r.Fail("finish-count", "service %d: Finish called %d times, want exactly once", s.Idx, len(s.Finishes))
			return
		}
		f := s.Finishes[0]
		if !f.SameAs {
			r.Fail("finish-wrong-args", "service %d: Finish received an assigner other than the one its Assigner method returned", s.Idx)
			return
		}
		if f.Seq > w.loopSeq {
			r.Fail("loop-returned-before-finish", "Loop returned at #%d, before Finish of service %d (#%d)", w.loopSeq, s.Idx, f.Seq)
			return
		}
		if s.lastExit > f.Seq {
			r.Fail("finish-before-server-exit", "service %d: Finish at #%d, but a handler of its server returned at #%d", s.Idx, f.Seq, s.lastExit)
			return
		}
		st := f.Status
		nflags := 0
		for _, b := range []bool{st.Stopped, st.Closed, st.Err != nil} {
			if b {
				nflags++
			}
		}
		if nflags != 1 {
			r.Fail("finish-wrong-args", "service %d: Finish received status %+v; want exactly one of Stopped, Closed or an error", s.Idx, st)
			return
		}
		if st.Err != nil {
			nerr++
			if !errors.Is(st.Err, ErrInjected) {
				r.Fail("finish-wrong-args", "service %d: Finish received the error %v, which is not the error of its connection", s.Idx, st.Err)
				return
			}
			if c := s.conn; c != nil && !connFailed(c) {
				r.Fail("finish-wrong-args", "service %d: Finish received an error status but its connection did not fail", s.Idx)
				return
			}
		}
		// rules that need no knowledge of which connection the service served
		// (a connection that never carried a call cannot be told apart)
		if st.Stopped && !(w.cancelSeq >= 0 && w.cancelSeq < f.Seq) && !(w.acceptErrSeq >= 0 && w.acceptErrSeq < f.Seq) {
			// (Loop may also stop its servers when the accepter has failed: the
			// property only says that it waits for them)
			r.Fail("finish-wrong-args", "service %d: status Stopped, but neither had the context ended nor the accepter failed before Finish (#%d)", s.Idx, f.Seq)
			return
		}
		if st.Closed {
			nclosedStatus++
			n := 0
			for _, c := range w.conns {
				if c.Accepted && c.ClientClosed >= 0 && c.ClientClosed < f.Seq {
					n++
				}
			}
			if nclosedStatus > n {
				r.Fail("finish-wrong-args", "service %d: %d services were finished with status Closed by #%d, but only %d clients had closed their connection by then", s.Idx, nclosedStatus, f.Seq, n)
				return
			}
		}
		if c := s.conn; c != nil {
			// the server's channel was closed before Finish
			closedSeq := -1
			for seq, e := range r.Sim.Events {
				if (e.Kind == "ch.close" && c.sEnd != nil && e.Tag == c.sEnd.Name) || (e.Kind == "conn.close" && w.netPop && e.Tag == fmt.Sprint("conn", c.Idx)) {
					closedSeq = seq
					break
				}
			}
			if closedSeq < 0 || closedSeq > f.Seq {
				r.Fail("finish-before-server-exit", "service %d: Finish at #%d but its server's channel was closed at #%d", s.Idx, f.Seq, closedSeq)
				return
			}
			// status consistent with the cause
			clientBefore := c.ClientClosed >= 0 && c.ClientClosed < f.Seq
			if st.Err != nil {
				continue
			}

			if st.Closed && !clientBefore {
				r.Fail("finish-wrong-args", "service %d: status Closed, but its client had not closed before Finish (#%d)", s.Idx, f.Seq)
				return
			}
		}
	}
	nfailed := 0
	for _, c := range w.conns {
		if connFailed(c) {
			nfailed++
		}
	}
	if nerr > nfailed {
		r.Fail("finish-wrong-args", "%d services were finished with an error status but only %d connections failed", nerr, nfailed)
		return
	}
	if nfailed > 0 {
		r.Probe("connection-failed-under-a-server")
	}
	// an Assigner failure closes the accepted connection
	nfail := 0
	for _, s := range w.svcs {
		if s.FailAssign {
			nfail++
		}
	}
	if nfail > 0 {
		unclosed := 0
		for _, c := range w.conns {
			if !c.Accepted {
				continue
			}
			n := 0
			if w.netPop {
				n = c.fc.NClose
			} else {
				n = c.sEnd.NClose
			}
			if n == 0 {
				unclosed++
			}
		}
		if unclosed > 0 {
			r.Fail("channel-not-closed-after-assigner-failure", "%d accepted connections were never closed by Loop (%d services failed in Assigner): a connection whose service cannot start must be closed, not left dangling", unclosed, nfail)
			return
		}
	}
	// Loop's result, stated on the causes. The closed-listener class is decided
	// here with the standard library's own test, not with the library's helper.
	closedListener := func(err error) bool { return err != nil && errors.Is(err, net.ErrClosed) }
	switch {
	case w.netPop && !(failErr != nil && w.lstFailed):
		// Over a NetAccepter whose listener reported no failure of its own, the
		// only way Accept can fail is the end of the context, "which is what
		// NetAccepter yields" as a closed-listener error: Loop returns nil,
		// whatever error value NetAccepter made up for it.
		if w.loopErr != nil {
			r.Fail("loop-wrong-result", "the context ended and the listener reported no failure of its own, yet Loop over a NetAccepter returned %v, want nil (NetAccepter returned %v)", w.loopErr, w.acceptErr)
			return
		}
	case failErr != nil && errors.Is(w.acceptErr, failErr):
		if !errors.Is(w.loopErr, failErr) {
			r.Fail("loop-wrong-result", "the accepter failed with %q, Loop returned %v", failErr, w.loopErr)
			return
		}
	case closedListener(w.acceptErr):
		if w.loopErr != nil {
			r.Fail("loop-wrong-result", "the accepter reported a closed listener (%v), Loop returned %v, want nil", w.acceptErr, w.loopErr)
			return
		}
	case w.acceptErr != nil:
		if !errors.Is(w.loopErr, w.acceptErr) {
			r.Fail("loop-wrong-result", "the accepter failed with %v, Loop returned %v", w.acceptErr, w.loopErr)
			return
		}
	case w.netPop:
		// the listener itself reported nothing: NetAccepter ended on its own
		// account because the context ended, and that counts as a closed listener
		if w.loopErr != nil {
			r.Fail("loop-wrong-result", "the context ended and the listener reported no failure, yet Loop over a NetAccepter returned %v, want nil", w.loopErr)
			return
		}
	}
	if w.loopErr != nil && !(failErr != nil && errors.Is(w.loopErr, failErr)) && !(w.acceptErr != nil && errors.Is(w.loopErr, w.acceptErr)) {
		r.Fail("loop-wrong-result", "Loop returned %v, an error that the accepter never reported (accepter: %v)", w.loopErr, w.acceptErr)
		return
	}
	// every call that was answered carries the client's own tag
	for _, c := range w.conns {
		for i, rep := range c.Replies {
			if !strings.Contains(rep, fmt.Sprintf(`"c%d.%d"`, c.Idx, i)) {
				r.Fail("finish-wrong-args", "connection %d: reply %d is %s", c.Idx, i, rep)
				return
			}
		}
	}
	// Goroutines of the library that serve for as long as the context lives (a
	// watcher that closes the listener, say) are no leak: end the context first.
	if w.cancel != nil {
		w.cancel()
		if !r.RunQ() {
			return
		}
	}
	var left []string
	for _, g := range r.Sim.Unfinished() {
		if g.Lib { // goroutines started by the library (clients that were never accepted may still wait)
			left = append(left, g.Name+"@"+g.Site+"("+g.State()+")")
		}
	}
	if len(left) > 0 {
		r.Fail("goroutine-left", "after Loop returned: %v", left)
	}
}

func connFailed(c *loopConn) bool {
	if c.fc != nil {
		return c.fc.Failed
	}
	return c.sEnd != nil && c.sEnd.Failed
}
