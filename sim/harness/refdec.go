package verifh

import (
	"bytes"
	"fmt"
	"mime"
	"strings"
	"unicode/utf8"
)

// Reference decoders for C12, written from the documentation of package
// channel (not from its code). They are three-valued: where the documentation
// is silent they abstain (xUnspec) instead of inventing a rule.

const (
	xRecord    = iota // the next Recv yields exactly Rec (an error instead is tolerated, wrong data is not)
	xRecordErr        // the record is decodable but must come with an error (content-type policy)
	xError            // Recv must fail; data alongside may only be Partial (an unshortened final fragment)
	xEnd              // the stream is exhausted: Recv must fail, without data
	xUnspec           // the documentation does not say; from here on only "no fabricated bytes" is judged
	xRecordOpt        // an error is acceptable; without one the result must be exactly Rec
)

type expect struct {
	Kind    int
	Rec     []byte
	Partial []byte
	Why     string
}

type refDecoder interface{ Next() expect }

// ---------------------------------------------------------------------------
// Split / Line: records are terminated by the split byte.

type refSplit struct {
	s   []byte
	b   byte
	pos int
}

func (d *refSplit) Next() expect {
	if d.pos >= len(d.s) {
		return expect{Kind: xEnd}
	}
	i := bytes.IndexByte(d.s[d.pos:], d.b)
	if i < 0 {
		rest := d.s[d.pos:]
		d.pos = len(d.s)
		return expect{Kind: xError, Partial: rest, Why: "final record is not terminated"}
	}
	rec := d.s[d.pos : d.pos+i]
	d.pos += i + 1
	return expect{Kind: xRecord, Rec: rec}
}

// ---------------------------------------------------------------------------
// Header framings.

type refHdr struct {
	s      []byte
	mime   string
	strict bool // StrictHeader: Content-Type must be present and equal (if mime != "")
	pos    int
	lost   bool
}

func isDigits(s string) bool {
	if s == "" {
		return false
	}
	for _, c := range s {
		if c < '0' || c > '9' {
			return false
		}
	}
	return true
}

func (d *refHdr) Next() expect {
	if d.lost {
		return expect{Kind: xUnspec, Why: "position unknown after an earlier error"}
	}
	if d.pos >= len(d.s) {
		return expect{Kind: xEnd}
	}
	unspec := ""
	nfields := 0
	var cl, ct string
	haveCL, haveCT := false, false
	for {
		i := bytes.IndexByte(d.s[d.pos:], '\n')
		if i < 0 {
			rest := string(d.s[d.pos:])
			d.pos = len(d.s)
			if rest != "" && strings.Trim(rest, "\r") == "" {
				// the blank line lacks only its LF: the documentation does not say
				// whether end of stream may stand in for it
				d.lost = true
				return expect{Kind: xUnspec, Why: "blank line ended by end of stream instead of LF"}
			}
			return expect{Kind: xError, Why: "stream ends inside the header"}
		}
		line := string(d.s[d.pos : d.pos+i])
		d.pos += i + 1
		if strings.HasSuffix(line, "\r") {
			line = line[:len(line)-1]
		} else {
			unspec = "header line terminated by a bare LF"
		}
		if strings.ContainsAny(line, "\r") {
			unspec = "stray CR inside a header line"
		}
		if len(line) > 1000 {
			// an implementation may bound the memory it spends on one header line
			unspec = "header line of more than 1000 bytes"
		}
		if line == "" {
			if !haveCL && !haveCT && nfields == 0 {
				// a blank line where a header block should begin: an empty header
				// (an error), or a stray line break to skip (as HTTP servers do)?
				d.lost = true
				return expect{Kind: xUnspec, Why: "blank line before any header field"}
			}
			break
		}
		nfields++
		c := strings.IndexByte(line, ':')
		if c < 0 {
			d.lost = true
			return expect{Kind: xUnspec, Why: "header line without a colon"}
		}
		name, val := line[:c], line[c+1:]
		if name == "" || strings.TrimSpace(name) != name {
			unspec = "whitespace around or empty field name"
		}
		for _, ch := range []byte(name) {
			if !(ch >= 'a' && ch <= 'z' || ch >= 'A' && ch <= 'Z' || ch >= '0' && ch <= '9' || strings.IndexByte("!#$%&'*+-.^_`|~", ch) >= 0) {
				unspec = "field name with characters outside the token set"
			}
		}
		v := strings.TrimPrefix(val, " ")
		if strings.TrimSpace(v) != v {
			unspec = "unusual whitespace around a field value"
			v = strings.TrimSpace(v)
		}
		switch strings.ToLower(name) {
		case "content-length":
			if haveCL {
				unspec = "duplicate Content-Length"
			}
			haveCL, cl = true, v
		case "content-type":
			if haveCT {
				unspec = "duplicate Content-Type"
			}
			haveCT, ct = true, v
		}
	}
	if unspec != "" {
		d.lost = true
		return expect{Kind: xUnspec, Why: unspec}
	}
	if !haveCL || cl == "" {
		d.lost = true
		return expect{Kind: xError, Why: "missing Content-Length"}
	}
	if !isDigits(cl) {
		d.lost = true
		if len(cl) > 1 && cl[0] == '+' && isDigits(cl[1:]) {
			return expect{Kind: xUnspec, Why: "explicitly signed Content-Length"}
		}
		if len(cl) > 1 && cl[0] == '-' && isDigits(cl[1:]) && strings.Trim(cl[1:], "0") == "" {
			return expect{Kind: xUnspec, Why: "negative zero Content-Length"}
		}
		return expect{Kind: xError, Why: "Content-Length is not a non-negative decimal number"}
	}
	optional := false
	if len(cl) > 18 || (len(cl) > 1 && cl[0] == '0') {
		// an implementation may bound the digits it reads, or refuse a padded
		// number: whether it reports an error is open. What it may not do is
		// return, without error, anything but the record of the declared length
		// (the value is evaluated below without overflow).
		optional = true
	}
	// the declared length, saturating
	n := 0
	over := false
	for _, c := range cl {
		if n > (1<<62)/10 {
			over = true
			break
		}
		n = n*10 + int(c-'0')
	}
	if over || n > len(d.s)-d.pos {
		part := d.s[d.pos:]
		d.pos = len(d.s)
		d.lost = true
		return expect{Kind: xError, Partial: part, Why: "declared length exceeds what the stream holds"}
	}
	rec := d.s[d.pos : d.pos+n]
	d.pos += n
	mismatch := false
	if d.strict {
		mismatch = ct != d.mime
	} else {
		mismatch = haveCT && ct != d.mime
	}
	if optional && !mismatch {
		d.lost = true // after an error the position is unknown; after a record the caller goes on in tail mode too
		return expect{Kind: xRecordOpt, Rec: rec, Why: "Content-Length with leading zeros or more than 18 digits"}
	}
	if mismatch && d.mime == "" {
		// a framing made without a type sends none and expects none: whether a
		// type that is present "matches" is open
		d.lost = true
		return expect{Kind: xUnspec, Why: "Content-Type present although the framing has no expected type"}
	}
	if mismatch {
		if strings.EqualFold(ct, d.mime) {
			d.lost = true
			return expect{Kind: xUnspec, Why: "content types differ only in case"}
		}
		if haveCT && ct == "" {
			d.lost = true
			return expect{Kind: xUnspec, Why: "Content-Type field with an empty value"}
		}
		// "must match": the same media type written differently (white space
		// around ';', parameter order) may or may not count as a match
		if t1, p1, e1 := mime.ParseMediaType(ct); e1 == nil {
			if t2, p2, e2 := mime.ParseMediaType(d.mime); e2 == nil && t1 == t2 && fmt.Sprint(p1) == fmt.Sprint(p2) {
				d.lost = true
				return expect{Kind: xUnspec, Why: "content types are the same media type spelt differently"}
			}
		}
		return expect{Kind: xRecordErr, Rec: rec, Why: "content type does not match"}
	}
	return expect{Kind: xRecord, Rec: rec}
}

// ---------------------------------------------------------------------------
// RawJSON: records are complete JSON values (RFC 8259), optionally separated
// by whitespace.

type refJSON struct {
	s    []byte
	pos  int
	lost bool
}

func (d *refJSON) Next() expect {
	if d.lost {
		return expect{Kind: xUnspec, Why: "after invalid JSON the framing cannot recover"}
	}
	for d.pos < len(d.s) && (d.s[d.pos] == ' ' || d.s[d.pos] == '\t' || d.s[d.pos] == '\r' || d.s[d.pos] == '\n') {
		d.pos++
	}
	if d.pos >= len(d.s) {
		return expect{Kind: xEnd}
	}
	end, st := scanJSONValue(d.s, d.pos, 0)
	switch st {
	case jsOK:
		rec := d.s[d.pos:end]
		d.pos = end
		if !utf8.Valid(rec) || bytes.Contains(rec, []byte(`\ud`)) || bytes.Contains(rec, []byte(`\uD`)) {
			// JSON text is UTF-8 (RFC 8259 8.1) and escapes of surrogates must pair
			// up: a framing may refuse a value that is only "structurally" valid
			d.lost = true
			return expect{Kind: xUnspec, Why: "JSON value with invalid UTF-8 or surrogate escapes"}
		}
		isNum := rec[0] == '-' || (rec[0] >= '0' && rec[0] <= '9')
		if isNum && end < len(d.s) && d.s[end] >= '0' && d.s[end] <= '9' {
			// "007": a tokeniser that takes this for three numbers and one that
			// rejects it as not being JSON are both within the documentation
			d.lost = true
			return expect{Kind: xUnspec, Why: "a number directly followed by a digit"}
		}
		if end == len(d.s) && rec[0] != '{' && rec[0] != '[' && rec[0] != '"' {
			// a number or literal that runs into the end of the stream: complete,
			// or cut off? An error is as good as the value
			d.lost = true
			return expect{Kind: xRecordOpt, Rec: rec, Why: "a scalar ended only by the end of the stream"}
		}
		return expect{Kind: xRecord, Rec: rec}
	case jsTruncated:
		part := d.s[d.pos:]
		d.pos = len(d.s)
		return expect{Kind: xError, Partial: part, Why: "stream ends inside a JSON value"}
	}
	d.lost = true
	return expect{Kind: xError, Why: "not a JSON value"}
}

const (
	jsOK = iota
	jsTruncated
	jsInvalid
)

func skipWS(s []byte, i int) int {
	for i < len(s) && (s[i] == ' ' || s[i] == '\t' || s[i] == '\r' || s[i] == '\n') {
		i++
	}
	return i
}

// scanJSONValue scans one JSON value starting at s[i] (no leading whitespace).
func scanJSONValue(s []byte, i, depth int) (int, int) {
	if i >= len(s) {
		return i, jsTruncated
	}
	if depth > 10000 {
		return i, jsInvalid
	}
	switch c := s[i]; {
	case c == '{':
		i = skipWS(s, i+1)
		if i >= len(s) {
			return i, jsTruncated
		}
		if s[i] == '}' {
			return i + 1, jsOK
		}
		for {
			if i >= len(s) {
				return i, jsTruncated
			}
			if s[i] != '"' {
				return i, jsInvalid
			}
			var st int
			i, st = scanJSONString(s, i)
			if st != jsOK {
				return i, st
			}
			i = skipWS(s, i)
			if i >= len(s) {
				return i, jsTruncated
			}
			if s[i] != ':' {
				return i, jsInvalid
			}
			i = skipWS(s, i+1)
			i, st = scanJSONValue(s, i, depth+1)
			if st != jsOK {
				return i, st
			}
			i = skipWS(s, i)
			if i >= len(s) {
				return i, jsTruncated
			}
			if s[i] == '}' {
				return i + 1, jsOK
			}
			if s[i] != ',' {
				return i, jsInvalid
			}
			i = skipWS(s, i+1)
		}
	case c == '[':
		i = skipWS(s, i+1)
		if i >= len(s) {
			return i, jsTruncated
		}
		if s[i] == ']' {
			return i + 1, jsOK
		}
		for {
			var st int
			i, st = scanJSONValue(s, i, depth+1)
			if st != jsOK {
				return i, st
			}
			i = skipWS(s, i)
			if i >= len(s) {
				return i, jsTruncated
			}
			if s[i] == ']' {
				return i + 1, jsOK
			}
			if s[i] != ',' {
				return i, jsInvalid
			}
			i = skipWS(s, i+1)
			if i >= len(s) {
				return i, jsTruncated
			}
		}
	case c == '"':
		return scanJSONString(s, i)
	case c == 't':
		return scanLit(s, i, "true")
	case c == 'f':
		return scanLit(s, i, "false")
	case c == 'n':
		return scanLit(s, i, "null")
	case c == '-' || (c >= '0' && c <= '9'):
		return scanJSONNumber(s, i)
	}
	return i, jsInvalid
}

func scanLit(s []byte, i int, lit string) (int, int) {
	for k := 0; k < len(lit); k++ {
		if i+k >= len(s) {
			return len(s), jsTruncated
		}
		if s[i+k] != lit[k] {
			return i + k, jsInvalid
		}
	}
	return i + len(lit), jsOK
}

func scanJSONString(s []byte, i int) (int, int) {
	i++ // opening quote
	for {
		if i >= len(s) {
			return i, jsTruncated
		}
		c := s[i]
		switch {
		case c == '"':
			return i + 1, jsOK
		case c < 0x20:
			return i, jsInvalid
		case c == '\\':
			if i+1 >= len(s) {
				return len(s), jsTruncated
			}
			switch s[i+1] {
			case '"', '\\', '/', 'b', 'f', 'n', 'r', 't':
				i += 2
			case 'u':
				for k := 2; k < 6; k++ {
					if i+k >= len(s) {
						return len(s), jsTruncated
					}
					h := s[i+k]
					if !(h >= '0' && h <= '9' || h >= 'a' && h <= 'f' || h >= 'A' && h <= 'F') {
						return i + k, jsInvalid
					}
				}
				i += 6
			default:
				return i + 1, jsInvalid
			}
		default:
			i++
		}
	}
}

// scanJSONNumber: -?(0|[1-9][0-9]*)(\.[0-9]+)?([eE][+-]?[0-9]+)?. A number that
// reaches the end of the stream is complete if it is well formed so far and
// could end there.
func scanJSONNumber(s []byte, i int) (int, int) {
	digits := func() int {
		n := 0
		for i < len(s) && s[i] >= '0' && s[i] <= '9' {
			i++
			n++
		}
		return n
	}
	if s[i] == '-' {
		i++
		if i >= len(s) {
			return i, jsTruncated
		}
	}
	if s[i] == '0' {
		i++
	} else if s[i] >= '1' && s[i] <= '9' {
		digits()
	} else {
		return i, jsInvalid
	}
	if i < len(s) && s[i] == '.' {
		i++
		if i >= len(s) {
			return i, jsTruncated
		}
		if digits() == 0 {
			return i, jsInvalid
		}
	}
	if i < len(s) && (s[i] == 'e' || s[i] == 'E') {
		i++
		if i < len(s) && (s[i] == '+' || s[i] == '-') {
			i++
		}
		if i >= len(s) {
			return i, jsTruncated
		}
		if digits() == 0 {
			return i, jsInvalid
		}
	}
	return i, jsOK
}
