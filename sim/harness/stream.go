package verifh

import (
	"io"

	rt "github.com/creachadair/jrpc2/verifrt"
)

// SimStream is a simulated byte stream (io.Reader + io.WriteCloser) whose
// fragmentation the simulator decides: every Read returns a chunk whose size
// is drawn from the schedule/fault source.
type SimStream struct {
	r      *Run
	buf    []byte
	closed bool
	// chunk policy
	Mode        int // 0 one byte at a time, 1 random cuts, 2 as much as asked for, 3 a single cut at CutAt
	CutAt       int
	EOFWithData bool // deliver io.EOF together with the last chunk
	MaxChunk    int  // 0: unlimited

	Pos     int // bytes read so far
	NWrite  int // Write calls
	Written int // bytes written
	NRead   int
	Cuts    int // reads that returned less than was available and asked for
}

func NewSimStream(r *Run) *SimStream { return &SimStream{r: r} }

// Write implements io.Writer. It is a scheduling point so that a sender and a
// receiver interleave.
func (s *SimStream) Write(p []byte) (int, error) {
	rt.Yield("stream:write")
	if s.closed {
		return 0, io.ErrClosedPipe
	}
	s.buf = append(s.buf, p...)
	s.NWrite++
	s.Written += len(p)
	return len(p), nil
}

// Close implements io.Closer (the sender's end).
func (s *SimStream) Close() error {
	rt.Yield("stream:close")
	s.closed = true
	return nil
}

// Read implements io.Reader.
func (s *SimStream) Read(p []byte) (int, error) {
	if len(p) == 0 {
		return 0, nil
	}
	rt.Block("stream:read", func() bool { return len(s.buf) > 0 || s.closed })
	s.NRead++
	if len(s.buf) == 0 {
		return 0, io.EOF
	}
	avail := len(s.buf)
	if avail > len(p) {
		avail = len(p)
	}
	n := avail
	switch s.Mode {
	case 0:
		n = 1
	case 1:
		lim := avail
		if s.MaxChunk > 0 && lim > s.MaxChunk {
			lim = s.MaxChunk
		}
		n = 1 + s.r.Sch.Int("chunk", lim)
	case 3:
		if s.Pos < s.CutAt && s.Pos+n > s.CutAt {
			n = s.CutAt - s.Pos
		}
	}
	if n < avail {
		s.Cuts++
	}
	copy(p, s.buf[:n])
	s.buf = s.buf[n:]
	s.Pos += n
	if s.closed && len(s.buf) == 0 && s.EOFWithData {
		s.r.Probe("data-delivered-with-eof")
		return n, io.EOF
	}
	return n, nil
}
