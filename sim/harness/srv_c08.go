package verifh

import (
	"errors"
	"fmt"
	"strings"

	"github.com/creachadair/jrpc2"
	rt "github.com/creachadair/jrpc2/verifrt"
)

func init() { scenarios["C08"] = scenarioC08 }

func serversActiveNow() string { return serversActive() }

func serversActive() string {
	return jrpc2.ServerMetrics().Get("servers_active").String()
}

// C08: shutdown for every stop cause and timing, then restart.
func scenarioC08(r *Run) {
	cfg := srvCfg{Prop: "C08", MaxMsgs: 6, MaxBatch: 3, Invalid: true, Unknown: true, ReplyShaped: true, Pushes: 2, Stops: 2,
		HoldP: 0.4, NoteP: 0.4, KMax: 3, Cancels: 1}
	w := newSrvWorld(r, cfg)
	g := r.Gen
	// stop causes besides Stop(): early peer close, scripted channel faults
	nops := 2*len(w.msgs) + 4
	if g.Chance("earlyclose", 0.25) {
		w.closeAfter = g.Int("closeafter", len(w.msgs)+1)
	}
	if g.Chance("recvfault", 0.35) {
		w.sEnd.FaultRecvAt[g.Int("recvfaultat", nops)] = []int{fRecvErr, fRecvDataEOF, fRecvDataErr}[g.Int("recvfaultkind", 3)]
	}
	if g.Chance("sendfault", 0.25) {
		w.sEnd.FaultSendAt[g.Int("sendfaultat", nops)] = []int{fSendErrLost, fSendErrAfter}[g.Int("sendfaultkind", 2)]
	}
	r.applyForce(w.sEnd)
	defer func() { r.noteOps(w.sEnd) }()
	w.sEnd.OnFault = func(kind int) {
		switch kind {
		case fRecvErr, fRecvDataErr:
			w.causes = append(w.causes, stopCause{Kind: "error", Begin: w.seq(), End: -1})
		case fRecvDataEOF:
			w.eofFaultSeq = w.seq()
			w.causes = append(w.causes, stopCause{Kind: "closed", Begin: w.seq(), End: -1})
		case fSendErrLost, fSendErrAfter:
			// a failed Send is a channel failure too; whether it ends the server
			// (with that error) is the implementation's choice
			w.causes = append(w.causes, stopCause{Kind: "error", Begin: w.seq(), End: -1, Optional: true})
			return
		default:
			return
		}
		if w.stopSeq < 0 {
			w.stopSeq = w.seq()
		}
	}
	w.sEnd.CloseErr = g.Chance("closeerr", 0.12) // Close reports an error: the stop cause decides the status all the same
	s := r.Sample.(map[string]any)
	s["close_after"], s["recv_faults"], s["send_faults"] = w.closeAfter, fmt.Sprint(w.sEnd.FaultRecvAt), fmt.Sprint(w.sEnd.FaultSendAt)
	active0 := serversActive()
	sEnd2, pEnd2 := NewPipe(r, "srv2", "peer2")
	if g.Chance("restartatonce", 0.5) {
		w.restartEnd = sEnd2
	}
	w.start()
	if w.restartEnd == nil {
		// more than one caller waits for the server, some of them from early on
		// (not when the server is restarted the moment the first waiter returns:
		// a slower waiter would then be looking at the second life)
		for i, n := 0, g.Weighted("observers", []int{5, 3, 2}); i < n; i++ {
			w.observe(fmt.Sprintf("w-obs%d", i), g.Chance("obswait", 0.4), g.Int("obsdelay", 30))
		}
	}
	if !w.drive(nil) {
		return
	}
	if !w.shutdown() {
		return
	}
	w.qpoints = append(w.qpoints, w.seq())
	w.checkC08(active0)
	if r.Failed() {
		return
	}
	if w.restartEnd == nil && w.status != nil {
		// and callers that come after the server has ended
		w.observe("w-late0", false, 0)
		w.observe("w-late1", true, 0)
		if !r.RunQ() {
			return
		}
	}
	w.checkObservers()
	if r.Failed() {
		return
	}
	w.restartProbe(active0, sEnd2, pEnd2)
}

func (w *srvWorld) checkC08(active0 string) {
	r := w.r
	w.noteArrivals()
	if w.status == nil {
		why := ""
		for _, g := range r.Sim.Unfinished() {
			why += fmt.Sprintf(" %s@%s(%s)", g.Name, g.Site, g.State())
		}
		r.Fail("waitstatus-never-returned", "the peer has closed its end and every handler has been released, yet WaitStatus has not returned; goroutines left:%s", why)
		return
	}
	// every handler exit precedes the return of WaitStatus
	for _, msg := range w.msgs {
		for _, m := range msg.Members {
			if m.Enter >= 0 && (m.Exit < 0 || m.Exit > w.waitSeq) {
				r.Fail("waitstatus-before-handler-exit", "WaitStatus returned at #%d but handler %s (entered #%d) returned at #%d", w.waitSeq, m.Tag, m.Enter, m.Exit)
				return
			}
		}
	}
	// status classification
	st := *w.status
	got := ""
	switch {
	case st.Stopped && st.Closed, (st.Stopped || st.Closed) && st.Err != nil:
		r.Fail("wrong-status", "status %+v sets more than one of Stopped/Closed/Err", st)
		return
	case st.Stopped:
		got = "stopped"
	case st.Closed:
		got = "closed"
	case st.Err != nil:
		got = "error"
		if !errors.Is(st.Err, ErrInjected) {
			r.Fail("wrong-status", "status error %v is not the channel's error", st.Err)
			return
		}
	default:
		r.Fail("wrong-status", "status %+v reports no cause", st)
		return
	}
	// complete the causes: a reader-triggered cause has certainly taken effect
	// at the first quiescent point after it began
	for i := range w.causes {
		c := &w.causes[i]
		if c.End < 0 {
			for _, q := range w.qpoints {
				if q > c.Begin {
					c.End = q
					break
				}
			}
		}
	}
	// A failed Send may or may not end the server. When the server demonstrably
	// went on serving afterwards - past a quiescent point that follows the
	// failure, it accepted another request for dispatch or sent another record -
	// that failure did not end it, and is not what WaitStatus may report.
	var causes []stopCause
	for _, c := range w.causes {
		if c.Optional && w.servedAfter(c) {
			r.Probe("send-failure-survived")
			continue
		}
		causes = append(causes, c)
	}
	allowed := map[string]bool{}
	for _, c := range causes {
		if c.Begin < w.waitSeq {
			allowed[c.Kind] = true
		}
	}
	must := ""
	for _, a := range causes {
		if a.End < 0 || a.Optional {
			continue
		}
		first := true
		for _, b := range causes {
			if b != a && b.Begin <= a.End {
				first = false
			}
		}
		if first {
			must = a.Kind
		}
	}
	if !allowed[got] || (must != "" && got != must) {
		r.Fail("wrong-status", "WaitStatus reported %q (%+v); stop causes in order: %+v; allowed %v, required %q", got, st, w.causes, sortedKeys(allowed), must)
		return
	}
	// call handlers still polling after the stop has taken effect see a cancelled context
	stopQ := -1
	if fc := w.firstDefiniteCause(); fc < 1<<30 {
		for _, q := range w.qpoints {
			if q > fc {
				stopQ = q
				break
			}
		}
	}
	for _, msg := range w.msgs {
		for _, m := range msg.Members {
			if m.Kind != mCall {
				continue
			}
			for _, ob := range m.CtxObs {
				if stopQ >= 0 && ob.Seq > stopQ && ob.Err == "" {
					r.Fail("in-flight-ctx-not-cancelled", "call handler %s polled its context at #%d, after the server had stopped (cause at #%d, quiescent at #%d), and it was not cancelled", m.Tag, ob.Seq, w.firstDefiniteCause(), stopQ)
					return
				}
			}
		}
	}
	// valid notifications proven to be enqueued before the stop were handed to their handlers
	fc := w.firstCause()
	for _, msg := range w.msgs {
		if msg.Arrive < 0 || msg.Garbage || msg.Empty {
			continue
		}
		// a record delivered together with io.EOF is received before the end of
		// the stream it announces: the server treats it as a final record
		proven := msg.WithEOF
		byOrder := false // proven only by the order of the channel (wording of the report)
		settled := 1 << 30 // first quiescent point after the arrival: the reader has dealt with the record by then
		for _, q := range w.qpoints {
			if q > msg.Arrive {
				settled = q
				break
			}
		}
		for _, c := range w.causes {
			if c.Begin < settled && c.Begin != w.eofFaultSeq && !(c.Optional && w.servedAfter(c)) {
				// another stop cause came first, or raced with the reader (a failed
				// Send counts unless the server demonstrably survived it)
				proven = false
			}
		}
		// received before the stop, whatever the reader's structure (one loop, or a
		// reader feeding a decoder): a quiescent point lies between the arrival and
		// the first stop cause, so the server has dealt with the record
		if settled < fc {
			proven = true
		}
		// ... or, when the connection ended through the channel itself (the peer
		// hung up, a Recv failed), by the order of the channel: a record whose
		// Recv returned before the Recv that reported the end was received before
		// that end. This proof must not be raced by a Stop() or a failed Send,
		// which can overtake records the server has read but not yet dealt with.
		if end := w.endReportedAt(); end >= 0 && msg.Arrive < end {
			raced := false
			for _, c := range w.causes {
				if (c.Kind == "stopped" || c.Optional) && c.Begin < settled {
					raced = true
				}
			}
			if !raced {
				proven = true
				byOrder = settled >= fc && !msg.WithEOF
			}
		}
		if !proven {
			continue
		}
		for _, m := range msg.Members {
			if m.Kind == mNote && m.Enters == 0 {
				how := "and dealt with (a quiescent point followed) before the first stop cause"
				if byOrder {
					how = "before the Recv that reported the end of the connection, unraced by a Stop or a failed Send, hence before the stop; first stop cause began"
				}
				if msg.WithEOF {
					how = "as the final record of the stream (Recv returned it together with io.EOF, and no other stop cause came first), which is before the stop that this end of stream causes"
				}
				r.Fail("notification-lost", "notification %s of message %d was received (#%d) %s (#%d), yet its handler never ran", m.Tag, msg.Idx, msg.Arrive, how, fc)
				return
			}
			if m.Kind == mNote && m.Enters > 1 {
				r.Fail("notification-lost", "notification %s ran %d times", m.Tag, m.Enters)
				return
			}
		}
	}
	if w.restarted {
		// the server is already running again on the fresh channel; the gauge and
		// the census are judged after that connection has ended (restartProbe)
		return
	}
	// (the servers_active metric is not judged: no property speaks about it)
	w.census("after WaitStatus")
}

// census reports goroutines that outlive the scenario.
func (w *srvWorld) census(when string) {
	var left []string
	for _, g := range w.r.Sim.Unfinished() {
		left = append(left, fmt.Sprintf("%s@%s(%s)", g.Name, g.Site, g.State()))
	}
	if len(left) > 0 {
		w.r.Fail("goroutine-left", "%s: %d goroutines have not finished: %s", when, len(left), strings.Join(left, " "))
	}
}

// restartProbe starts the same server on a fresh channel and checks it serves
// normally and shows no residue of the previous connection.
func (w *srvWorld) restartProbe(active0 string, sEnd, pEnd *End) {
	r := w.r
	var out []string
	sEnd.OnSend = func(e *End, rec []byte) { out = append(out, string(rec)) }
	// reuse an id of the previous connection, preferably one that was in flight
	id := "1"
	for _, msg := range w.msgs {
		for _, m := range msg.Members {
			if m.Kind == mCall && m.ID != "" {
				id = m.ID
			}
		}
	}
	var got []string
	var st *jrpc2.ServerStatus
	panicked := ""
	// the second life ends like the first may: peer close, Stop() or a channel
	// failure, with a call in flight whose handler waits for its context
	endKind := r.Gen.Int("secondlifeend", 3)
	w.releaseAll = false
	held := &member{Msg: 9999, Kind: mCall, ID: "424242", Tag: "probe2", Enter: -1, Exit: -1, Logged: -1}
	held.Script = hscript{Hold: true, RespectCtx: true, Outcome: 2}
	w.byTag[held.Tag] = held
	r.Sim.Spawn("r-main", func() {
		defer func() {
			if p := recover(); p != nil {
				panicked = fmt.Sprint(p)
			}
		}()
		if !w.restarted {
			w.srv.Start(sEnd)
		}
	})
	peerMayClose := false
	r.Sim.Spawn("r-peer", func() {
		rt.Yield("probe:start")
		pEnd.Send([]byte(fmt.Sprintf(`{"jsonrpc":"2.0","id":%s,"method":"h","params":{"t":"probe"}}`, id)))
		b, err := pEnd.Recv()
		if err == nil {
			got = append(got, string(b))
		}
		pEnd.Send([]byte(fmt.Sprintf(`{"jsonrpc":"2.0","id":%s,"method":"h","params":{"t":"probe2"}}`, held.ID)))
		rt.Block("probe:closegate", func() bool { return peerMayClose })
		pEnd.Close()
		for {
			b, err := pEnd.Recv()
			if err != nil {
				return
			}
			got = append(got, string(b))
		}
	})
	if !r.RunQ() {
		return
	}
	if panicked != "" {
		r.Fail("restart-failed", "Start on a fresh channel after WaitStatus returned panicked: %s", panicked)
		return
	}
	want := fmt.Sprintf(`{"jsonrpc":"2.0","id":%s,"result":{"tag":"probe"}}`, id)
	if len(got) != 1 || compactJSON(got[0]) != compactJSON(want) {
		cls := "restart-failed"
		if len(got) > 1 || len(out) > 1 {
			cls = "restart-residue"
		}
		r.Fail(cls, "restarted server: probe call with id %s got %q (server sent %q), want exactly %s", id, got, out, want)
		return
	}
	if !held.Holding {
		r.Fail("restart-failed", "restarted server: a second call was not handed to its handler (entered=%v)", held.Enter >= 0)
		return
	}
	switch endKind {
	case 0:
		peerMayClose = true
	case 1:
		r.Sim.Spawn("r-stop", func() { w.srv.Stop(); peerMayClose = true })
	case 2:
		sEnd.Kick()
		r.Sim.Spawn("r-fail", func() { rt.Yield("probe:fail"); peerMayClose = true })
	}
	r.Sim.Spawn("r-wait", func() {
		s := w.srv.WaitStatus()
		st = &s
	})
	if !r.RunQ() {
		return
	}
	if st == nil {
		r.Fail("restart-failed", "restarted server: WaitStatus did not return after its second connection ended (%s)", []string{"peer closed", "Stop() called", "channel failed"}[endKind])
		return
	}
	if held.Exit < 0 || len(held.CtxObs) == 0 || held.CtxObs[len(held.CtxObs)-1].Err == "" {
		r.Fail("restart-failed", "restarted server: the call in flight when the second connection ended did not see its context cancelled (exit #%d)", held.Exit)
		return
	}
	okStatus := (endKind == 0 && st.Closed && !st.Stopped && st.Err == nil) ||
		(endKind == 1 && st.Stopped && !st.Closed && st.Err == nil) ||
		(endKind == 2 && !st.Stopped && !st.Closed && errors.Is(st.Err, ErrInjected))
	if !okStatus {
		r.Fail("restart-residue", "restarted server: status %+v after its connection ended by %s", *st, []string{"peer close (want Closed)", "Stop() (want Stopped)", "a channel failure (want that error)"}[endKind])
		return
	}
	for _, rec := range got[1:] {
		o := &outRec{Raw: rec}
		parseOut(o)
		if o.BadJSON || len(o.Objs) != 1 || o.Objs[0].ID != held.ID {
			r.Fail("restart-residue", "restarted server sent a record that answers neither probe call: %s", rec)
			return
		}
	}
	w.census("after restart")
}

// servedAfter reports whether the server went on serving after the (optional)
// cause c: after the first quiescent point following c, and before WaitStatus
// returned, a call's handler was entered or the server passed another record to Send.
func (w *srvWorld) servedAfter(c stopCause) bool {
	qp := -1
	for _, q := range w.qpoints {
		if q > c.Begin {
			qp = q
			break
		}
	}
	if qp < 0 {
		return false
	}
	for _, msg := range w.msgs {
		for _, m := range msg.Members {
			// (notifications received before a stop are still run after it: only a
			// call proves that the server was dispatching)
			// ... and only when it was handed a live context: a stopped server that
			// is winding down may still enter handlers, with cancelled contexts
			if m.Kind == mCall && m.Enter > qp && m.Enter < w.waitSeq && len(m.CtxObs) > 0 && m.CtxObs[0].Err == "" {
				return true
			}
		}
	}
	// a Send that succeeded (one on a channel the server has already closed
	// fails and proves nothing: replies of handlers that finish after a stop are
	// still passed to the closed channel)
	for seq, e := range w.r.Sim.Events {
		if seq > qp && seq < w.waitSeq && e.Kind == "ch.send.end" && e.Tag == "srv" && e.S == "" {
			for _, o := range w.out {
				if o.Seq > qp && o.Seq < seq {
					return true
				}
			}
		}
	}
	return false
}

// endReportedAt returns the sequence number at which the server's Recv reported
// the end of the channel or a failure without handing over a record (-1: never).
func (w *srvWorld) endReportedAt() int {
	for seq, e := range w.r.Sim.Events {
		if e.Kind == "ch.recv.ret" && e.Tag == w.sEnd.Name && strings.HasPrefix(e.S, "|") && len(e.S) > 1 {
			return seq
		}
	}
	return -1
}
